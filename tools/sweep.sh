#!/bin/bash
# usage: sweep.sh <tier> <seed>...   runs every claimed check with each seed, prints one line per run that is not clean
tier=$1; shift
cd "$(dirname "$0")/.."
ids=$(python3 -c "import json;print(' '.join(c['property_id'] for c in json.load(open('MANIFEST.json'))['checks']))")
for s in "$@"; do
  for id in $ids; do
    out=$(VERIF_SEED=$s VERIF_NO_SAVE=1 ./check $id $tier 2>/dev/null); rc=$?
    line=$(echo "$out" | grep -E "$id $tier:" | head -1)
    if [ $rc -ne 0 ]; then echo "seed=$s $id rc=$rc :: $line"; echo "$out" | grep -E "VIOLATION|INCONCL" | head -5; fi
  done
  echo "seed $s done"
done
