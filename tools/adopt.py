#!/usr/bin/env python3
"""Turn a saved violation file into (a) the witness of a known finding or (b) a regression
for a fixed defect.   usage:
  adopt.py known <viol.json> <finding-id> "<what fails>" [--hazard h]... [--sig s]...
  adopt.py fixed <viol.json> <name> <commit> "<what failed>"
"""
import json, os, sys
root = os.path.dirname(os.path.dirname(os.path.abspath(__file__)))
kf_path = os.path.join(root, "known_findings.json")
kf = json.load(open(kf_path))
mode, path = sys.argv[1], sys.argv[2]
v = json.load(open(path))
prop = v["property"]
d = os.path.dirname(path)
if mode == "known":
    fid, what = sys.argv[3], sys.argv[4]
    hazards, sigs = [], [v["signature"]]
    a = sys.argv[5:]
    while a:
        if a[0] == "--hazard": hazards.append(a[1])
        elif a[0] == "--sig": sigs.append(a[1])
        a = a[2:]
    new = os.path.join(d, "known-%s.json" % fid)
    v["expect"] = "known"; v["finding"] = fid
    json.dump(v, open(new, "w"), indent=1)
    if os.path.abspath(new) != os.path.abspath(path): os.remove(path)
    kf["findings"] = [f for f in kf["findings"] if f["id"] != fid]
    kf["findings"].append({"property": prop, "id": fid, "signatures": sorted(set(sigs)), "hazards": hazards,
                           "what": what, "witness": os.path.relpath(new, root)})
elif mode == "fixed":
    name, commit, what = sys.argv[3], sys.argv[4], sys.argv[5]
    new = os.path.join(d, "fixed-%s.json" % name)
    v["expect"] = "pass"; v["fixed_by"] = commit
    json.dump(v, open(new, "w"), indent=1)
    if os.path.abspath(new) != os.path.abspath(path): os.remove(path)
    line = "fixed: property=%s %s %s" % (prop, commit, what)
    if line not in kf["fixed"]: kf["fixed"].append(line)
json.dump(kf, open(kf_path, "w"), indent=1)
print("ok", new)
