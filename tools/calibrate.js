// Calibration of the reference interpreter against V8: node tools/calibrate.js <dir>
// Runs every caseNNNNN.wasm with the recorded calls; compares results (floats by bits, any NaN
// equals any NaN), trap / exception / return class, and the host.log sequence.
const fs = require('fs');
const dir = process.argv[2];
let total = 0, agree = 0, skipped = 0; const bad = [];
function bitsOf(t, x) {
  const b = new ArrayBuffer(8), v = new DataView(b);
  if (t === 'f32') { v.setFloat32(0, x); return String(v.getUint32(0)); }
  v.setFloat64(0, x); return String(v.getBigUint64(0));
}
function fromBits(t, s) {
  const b = new ArrayBuffer(8), v = new DataView(b);
  if (t === 'f32') { v.setUint32(0, Number(s)); return v.getFloat32(0); }
  v.setBigUint64(0, BigInt(s)); return v.getFloat64(0);
}
function isNanBits(t, s) { return Number.isNaN(fromBits(t, s)); }
for (const f of fs.readdirSync(dir).filter(f => f.endsWith('.json')).sort()) {
  const meta = JSON.parse(fs.readFileSync(dir + '/' + f));
  const bytes = fs.readFileSync(dir + '/' + f.replace('.json', '.wasm'));
  let mod;
  try { mod = new WebAssembly.Module(bytes); } catch (e) { skipped++; continue; }
  const log = [];
  const imports = {};
  let gi = 0;
  for (const imp of WebAssembly.Module.imports(mod)) {
    imports[imp.module] = imports[imp.module] || {};
    if (imp.kind === 'function') imports[imp.module][imp.name] = (x) => { log.push(x | 0); };
    else if (imp.kind === 'global') {
      const g = meta.imported_globals[gi]; const k = g.k;
      const ty = g.ty.toLowerCase();
      const val = ty === 'i32' ? 3 + k : ty === 'i64' ? BigInt(5 + k) : ty === 'f32' ? 1.5 + k : 2.5 + k;
      imports[imp.module][imp.name] = new WebAssembly.Global({ value: ty, mutable: false }, val);
      gi++;
    } else if (imp.kind === 'tag') imports[imp.module][imp.name] = new WebAssembly.Tag({ parameters: [] });
  }
  let inst;
  try { inst = new WebAssembly.Instance(mod, imports); } catch (e) { skipped++; continue; }
  let ok = true, why = '';
  for (const c of meta.calls) {
    log.length = 0;
    const args = c.args.map(a => a.t === 'i32' ? Number(a.v) : a.t === 'i64' ? BigInt(a.v) : a.t === 'ref' ? null : fromBits(a.t, a.v));
    let got;
    try {
      let r = inst.exports[c.name](...args);
      if (r === undefined) r = []; else if (!Array.isArray(r)) r = [r];
      got = { ok: r };
    } catch (e) {
      if (e instanceof WebAssembly.RuntimeError || e instanceof RangeError) got = { trap: String(e.message) };
      else if (e instanceof WebAssembly.Exception) got = { exception: true };
      else got = { trap: 'other:' + e };
    }
    const exp = c.expect;
    if (exp.ok) {
      if (!got.ok || got.ok.length !== exp.ok.length) { ok = false; why = `${c.name}: expected return ${JSON.stringify(exp.ok)}, V8 ${JSON.stringify(got, (k, v) => typeof v === 'bigint' ? v.toString() : v)}`; break; }
      for (let i = 0; i < exp.ok.length; i++) {
        const e = exp.ok[i], g = got.ok[i];
        let same;
        if (e.t === 'i32') same = (g | 0) === Number(e.v);
        else if (e.t === 'i64') same = BigInt.asIntN(64, g) === BigInt(e.v);
        else if (e.t === 'ref') same = g === null;
        else same = (isNanBits(e.t, e.v) && Number.isNaN(g)) || bitsOf(e.t, g) === e.v;
        if (!same) { ok = false; why = `${c.name}: result ${i}: interpreter ${e.t} ${e.v}, V8 ${String(g)}`; break; }
      }
      if (!ok) break;
    } else if (exp.trap) { if (!got.trap) { ok = false; why = `${c.name}: interpreter traps (${exp.trap}), V8 ${JSON.stringify(got, (k, v) => typeof v === 'bigint' ? v.toString() : v)}`; break; } }
    else if (exp.exception) { if (!got.exception) { ok = false; why = `${c.name}: interpreter: exception, V8 ${JSON.stringify(got)}`; break; } }
    if (JSON.stringify(log) !== JSON.stringify(c.log)) { ok = false; why = `${c.name}: log differs: interpreter ${JSON.stringify(c.log)}, V8 ${JSON.stringify(log)}`; break; }
  }
  total++;
  if (ok) agree++; else bad.push(f + ': ' + why);
}
console.log(`cases ${total}, agree ${agree}, disagree ${bad.length}, skipped (not accepted by this V8) ${skipped}`);
for (const b of bad.slice(0, 15)) console.log('  ' + b);
process.exit(bad.length ? 1 : 0);
