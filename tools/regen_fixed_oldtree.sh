#!/bin/bash
# usage: regen_fixed_oldtree.sh <commit> <ID> <replay-file> <signature-grep>
# For fix commits that cannot be reverted on top of the current tree: build a scratch copy of the
# harness against a scratch worktree at <commit>^, run the quick check there, and adopt a failing
# case whose signature matches <signature-grep> and which passes on the current tree.
commit=$1; id=$2; file=$3; pat=$4
S=/tmp/seedeval; mkdir -p $S
[ -d $S/repo ] || git -C /repo worktree add --detach $S/repo HEAD >/dev/null 2>&1
git -C $S/repo checkout -q -- . ; git -C $S/repo checkout -q --detach "$commit^" || exit 2
rsync -a --delete --exclude target --exclude fuzz/target --exclude fuzz/corpus --exclude fuzz/artifacts /verif/harness/ $S/harness/
sed -i "s|path = \"/repo\"|path = \"$S/repo\"|" $S/harness/Cargo.toml
[ -n "${OLDTREE_PATCH:-}" ] && ( cd $S/harness && eval "$OLDTREE_PATCH" )
rm -rf $S/root; mkdir -p $S/root/evidence $S/root/replays; echo '{"findings":[],"fixed":[]}' > $S/root/known_findings.json
( cd $S/harness && CARGO_NET_OFFLINE=true cargo build --release --offline >$S/build.log 2>&1 ) || { echo "old tree does not build with the harness"; tail -5 $S/build.log; exit 2; }
for seed in 1 2 3; do
  VERIF_SEED=$seed VERIF_ROOT=$S/root $S/harness/target/release/vcheck run $id quick >/dev/null 2>&1
  for v in $(grep -l "\"signature\": \"[^\"]*$pat" $S/root/replays/$id/viol-*.json 2>/dev/null); do
    python3 - "$v" "$file" "$commit" <<'PY'
import json,sys
d=json.load(open(sys.argv[1])); d["expect"]="pass"; d["fixed_by"]=sys.argv[3]
json.dump(d,open(sys.argv[2]+".cand.json","w"),indent=1)
PY
    if /verif/check --replay "$file.cand.json" | grep -q VIOLATION; then rm -f "$file.cand.json"; continue; fi
    mv "$file.cand.json" "$file"; echo "regenerated $file from $(basename $v)"; exit 0
  done
done
echo "!! no suitable case found"; exit 1
