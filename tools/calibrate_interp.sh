#!/bin/bash
# Calibration of the reference interpreter (harness/src/interp.rs) against V8 (node): not part
# of any check.  usage: calibrate_interp.sh [n]
n=${1:-5000}
d=$(mktemp -d)
cd "$(dirname "$0")/.." && ./check --setup >/dev/null && harness/target/release/vcheck calibrate "$n" "$d" && node tools/calibrate.js "$d"
rc=$?
rm -rf "$d"
exit $rc
