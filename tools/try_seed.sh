#!/bin/bash
# usage: try_seed.sh <seed-dir-name> <ID>...   applies seeded/<name>/patch.diff to /repo, runs the quick checks, reverts
name=$1; shift
cd /repo || exit 2
if ! git diff --quiet; then echo "/repo has local changes"; exit 2; fi
git apply /verif/seeded/$name/patch.diff || { echo "patch does not apply"; exit 2; }
for id in "$@"; do
  out=$(cd /verif && VERIF_NO_SAVE=1 ./check $id quick 2>/dev/null | grep -E "VIOLATION|quick:|INCONCL" | cut -c1-200)
  echo "== $name / $id"; echo "$out"
done
git checkout -- . 
rm -f /verif/replays/*/viol-*.json
