#!/bin/bash
# usage: try_seed_iso.sh <seed-dir-name> <ID>...
# Like try_seed.sh, but without touching /repo: the change is applied to a scratch worktree of
# /repo's HEAD and the checks run from a scratch copy of the harness that path-depends on it
# (usable while a background run is using /repo).  Scratch: /tmp/seedeval (kept for reuse;
# remove with `git -C /repo worktree remove --force /tmp/seedeval/repo; rm -rf /tmp/seedeval`).
name=$1; shift
S=/tmp/seedeval
mkdir -p $S
if [ ! -d $S/repo ]; then git -C /repo worktree add --detach $S/repo HEAD >/dev/null 2>&1 || exit 2; fi
git -C $S/repo checkout -q --detach "$(git -C /repo rev-parse HEAD)" 2>/dev/null
git -C $S/repo checkout -q -- . ; git -C $S/repo clean -fdq -e target
rsync -a --delete --exclude target --exclude fuzz/target --exclude fuzz/corpus --exclude fuzz/artifacts /verif/harness/ $S/harness/
sed -i "s|path = \"/repo\"|path = \"$S/repo\"|" $S/harness/Cargo.toml
rm -rf $S/root; mkdir -p $S/root/evidence; cp /verif/known_findings.json $S/root/; cp -r /verif/replays $S/root/replays; rm -f $S/root/replays/*/viol-*.json
git -C $S/repo apply /verif/seeded/$name/patch.diff || { echo "patch does not apply"; exit 2; }
( cd $S/harness && CARGO_NET_OFFLINE=true cargo build --release --offline >$S/build.log 2>&1 ) || { echo "build failed"; tail -5 $S/build.log; exit 2; }
for id in "$@"; do
  out=$(VERIF_ROOT=$S/root $S/harness/target/release/vcheck run $id quick 2>/dev/null | grep -E "^VIOLATION|quick:|INCONCL" | sed "s|$S/root|.|" | cut -c1-200)
  echo "== $name / $id"; echo "$out"
done
git -C $S/repo checkout -q -- .
