#!/usr/bin/env python3
"""Regenerate the witness tape of known findings whose witness no longer reproduces (generator
or driver changes shift the meaning of a tape).  For each stale finding the check is run with a
findings file that lacks that finding, the shrunk violation with one of its signatures becomes
the new witness.   usage: regen_known.py [--all]"""
import json, os, subprocess, sys, glob, tempfile
root = os.path.dirname(os.path.dirname(os.path.abspath(__file__)))
kf = json.load(open(os.path.join(root, "known_findings.json")))
def reproduces(w):
    out = subprocess.run([os.path.join(root, "check"), "--replay", os.path.join(root, w)], capture_output=True, text=True).stdout
    return "VIOLATION" in out
for f in kf["findings"]:
    w = f.get("witness")
    if not w or f.get("fatal"): continue
    if "--all" not in sys.argv and reproduces(w):
        continue
    print("regenerating", f["id"])
    tmp = tempfile.NamedTemporaryFile("w", suffix=".json", delete=False)
    # drop the finding and every finding that shares one of its classes (the class must be generated)
    hz = set(f.get("hazards", []))
    json.dump({"findings": [g for g in kf["findings"] if g["id"] != f["id"] and not (hz & set(g.get("hazards", [])))], "fixed": kf["fixed"]}, tmp); tmp.close()
    for v in glob.glob(os.path.join(root, "replays", f["property"], "viol-*.json")): os.remove(v)
    found = None
    for seed in ["1", "2", "3", "4"]:
        env = dict(os.environ, VERIF_FINDINGS_FILE=tmp.name, VERIF_SEED=seed)
        subprocess.run([os.path.join(root, "check"), f["property"], "quick"], env=env, capture_output=True, text=True)
        for v in sorted(glob.glob(os.path.join(root, "replays", f["property"], "viol-*.json"))):
            d = json.load(open(v))
            ok = any((s.endswith("*") and d["signature"].startswith(s[:-1])) or s == d["signature"] for s in f["signatures"])
            if ok and (found is None or len(d["tape_hex"]) < len(found["tape_hex"])): found = d
        for v in glob.glob(os.path.join(root, "replays", f["property"], "viol-*.json")): os.remove(v)
        if found: break
    os.unlink(tmp.name)
    if not found:
        print("  !! no reproduction found for", f["id"]); continue
    found["expect"] = "known"; found["finding"] = f["id"]
    json.dump(found, open(os.path.join(root, w), "w"), indent=1)
    print("  new witness, reproduces:", reproduces(w))
