#!/usr/bin/env python3
"""Check (and where stale, regenerate) the regression tapes replays/<ID>/fixed-*.json: each must
FAIL when its fix commit is taken out of /repo's working tree and PASS on the current tree.
/repo must be clean and no background run may be using it. While this tool runs, /repo's working tree
has one fix reverted at a time: do NOT run ./check (or anything that builds from /repo) concurrently - it
would report the reverted defect.   usage: regen_fixed.py [--check-only]"""
import json, os, subprocess, sys, glob
root = os.path.dirname(os.path.dirname(os.path.abspath(__file__)))
def sh(cmd, **kw): return subprocess.run(cmd, shell=True, capture_output=True, text=True, **kw)
if sh("git -C /repo diff --quiet").returncode != 0:
    print("/repo has local changes"); sys.exit(2)
def take_out(commit):
    r = sh(f"git -C /repo revert --no-commit {commit}")
    if r.returncode == 0: return True
    sh("git -C /repo revert --abort; git -C /repo reset -q --hard HEAD")
    files = sh(f"git -C /repo show --name-only --format= {commit}").stdout.split()
    r = sh(f"git -C /repo checkout {commit}^ -- " + " ".join(files))
    return r.returncode == 0
def restore():
    sh("git -C /repo revert --abort; git -C /repo reset -q --hard HEAD")
def replay_fails(path):
    return "VIOLATION" in sh(f"{root}/check --replay {path}").stdout
by_commit = {}
for f in sorted(glob.glob(os.path.join(root, "replays", "*", "fixed-*.json"))):
    d = json.load(open(f))
    by_commit.setdefault(d.get("fixed_by", "?"), []).append(f)
stale = []
pending = []
fails_now = {f: replay_fails(f) for fs in by_commit.values() for f in fs}
only = [a for a in sys.argv[1:] if not a.startswith('--')]
# these fixes cannot be taken out of the current tree (later commits build on them): their tapes
# are maintained with tools/regen_fixed_oldtree.sh against the tree at the commit's parent
OLDTREE = {'e678cd0', '0afa5db', '0fa83fb'}
for commit, files in by_commit.items():
    if only and commit not in only: continue
    if commit in OLDTREE and commit not in only:
        print('skip  ', commit, '(old-tree only: tools/regen_fixed_oldtree.sh)'); continue
    if not take_out(commit):
        print("cannot take out", commit); restore(); continue
    for f in files:
        if replay_fails(f) and not fails_now[f]:
            print("ok    ", commit, os.path.relpath(f, root))
        else:
            print("STALE ", commit, os.path.relpath(f, root)); stale.append((commit, f))
            if "--check-only" not in sys.argv:
                d = json.load(open(f)); prop = d["property"]
                for v in glob.glob(os.path.join(root, "replays", prop, "viol-*.json")): os.remove(v)
                sh(f"{root}/check {prop} quick")
                cands = []
                for v in glob.glob(os.path.join(root, "replays", prop, "viol-*.json")):
                    cands.append(json.load(open(v))); os.remove(v)
                cands = [c for c in cands if not os.path.basename(c.get("signature","")).startswith("harness")]
                # prefer the same signature, else a content difference, else the shortest tape
                cands.sort(key=lambda c: (c["signature"] != d.get("signature"), not c["signature"].startswith(("diff", "class", "trace", "visit", "encode", "differs", "accepted", "lowering", "block")), len(c["tape_hex"])))
                pending.append((f, commit, cands))
                if not cands:
                    print("       !! no failing case found with the commit taken out")
    restore()
    # a regression tape must pass on the current tree: take the first candidate that does
    for (f, commit2, cands) in pending:
        for n in cands[:8]:
            n["expect"] = "pass"; n["fixed_by"] = commit2
            json.dump(n, open(f + ".tmp", "w"), indent=1)
            os.replace(f + ".tmp", f + ".cand.json")
            ok = not replay_fails(f + ".cand.json")
            os.remove(f + ".cand.json")
            if ok:
                json.dump(n, open(f, "w"), indent=1); print("       regenerated", os.path.relpath(f, root), "with signature", n["signature"]); break
        else:
            if cands: print("       !! every candidate also fails on the current tree:", f)
    pending = []
    for f in files:
        if replay_fails(f): print("  !! fails on the current tree:", f)
print("stale:", len(stale))
