# executed by mkmanifest.py
claim("C01", "property-based testing: generated valid modules (type-directed generator over 13 feature families) round-tripped through the library, validated with wasmparser",
      "Generated-input search: every case is a freshly generated valid module (validated before use) that is parsed and re-encoded; the oracle is wasmparser's validator on the output. Violations shrink to a minimal tape and are saved as replay files. Absence of violations in N cases, not a proof.",
      "Trusted: wasmparser 0.235 validator and the harness generator (its outputs are self-checked by validation; gen_invalid is reported and >1% fails the run as inconclusive).",
      "DESIGN.md 5/C01")
claim("C02", "property-based testing: round-trip oracle on independently decoded content (wasmparser decode of input vs output, flattened path->value maps)",
      "Generated-input search with a round-trip oracle: the input and the library's output are decoded independently with wasmparser and compared entity by entity (types, imports, functions incl. locals and every instruction with all immediates, tables, memories, globals, exports, start, elements, data, tags, ordered custom sections, decoded name maps).",
      "Trusted: wasmparser decoding and Debug rendering of operators/types (used identically on both sides). Section framing, local run-length grouping and name-section layout are deliberately not compared.",
      "DESIGN.md 5/C02")
claim("C03", "fuzzing / property-based testing: structured mutation of generated valid binaries, crash oracle (panic hook + catch_unwind, process supervisor for aborts)",
      "Generated near-valid inputs (16 mutation operators over generated modules/components, deep nesting) fed to all four parse entry points; any panic or abort is a violation unless it matches a listed known finding by (file, message) signature.",
      "Trusted: the supervisor's attribution of aborts to the in-flight case; panic signatures ignore line numbers, so two panics with the same message in one file share a signature.",
      "DESIGN.md 5/C03")
