# executed by mkmanifest.py
claim("C01", "property-based testing: generated valid modules (type-directed generator over 13 feature families) round-tripped through the library, validated with wasmparser",
      "Generated-input search: every case is a freshly generated valid module (validated before use) that is parsed and re-encoded; the oracle is wasmparser's validator on the output. Violations shrink to a minimal tape and are saved as replay files. Absence of violations in N cases, not a proof.",
      "Trusted: wasmparser 0.235 validator and the harness generator (its outputs are self-checked by validation; gen_invalid is reported and >1% fails the run as inconclusive).",
      "DESIGN.md 5/C01")
claim("C02", "property-based testing: round-trip oracle on independently decoded content (wasmparser decode of input vs output, flattened path->value maps)",
      "Generated-input search with a round-trip oracle: the input and the library's output are decoded independently with wasmparser and compared entity by entity (types, imports, functions incl. locals and every instruction with all immediates, tables, memories, globals, exports, start, elements, data, tags, ordered custom sections, decoded name maps).",
      "Trusted: wasmparser decoding and Debug rendering of operators/types (used identically on both sides). Section framing, local run-length grouping and name-section layout are deliberately not compared.",
      "DESIGN.md 5/C02")
claim("C03", "fuzzing / property-based testing: structured mutation of generated valid binaries, crash oracle (panic hook + catch_unwind, process supervisor for aborts)",
      "Generated near-valid inputs (16 mutation operators over generated modules/components, deep nesting) fed to all four parse entry points; any panic or abort is a violation unless it matches a listed known finding by (file, message) signature.",
      "Trusted: the supervisor's attribution of aborts to the in-flight case; panic signatures ignore line numbers, so two panics with the same message in one file share a signature.",
      "DESIGN.md 5/C03")
_edit_note = "Trusted: wasmparser validator/decoder; the identity convention of the generated bases (imports by name, local functions by a leading marker constant, globals by type+initialiser, memories by limits; ambiguous bases are discarded and counted); the model mirrors only the documented ID contract."
claim("C06", "property-based testing of call histories: generated function/import edit histories run against the library and an identity-based reference model; decoded output compared site by site",
      "Stateful generated search: base module x history of up to 8 operations; after encode the output must validate and every function reference site (calls, tail calls, ref.func in code and constant expressions, exports, element items, start, injected code) must designate the identity the model assigns. Failures shrink over base and history together.",
      _edit_note, "DESIGN.md 5/C06")
claim("C07", "property-based testing of call histories: generated global edit histories against an identity-based reference model",
      "Stateful generated search over global additions (module API and iterator API), imported additions, deletions, initialiser replacement and injected global.get/set; identity comparison of every global reference site, freshness of returned IDs, validation.",
      _edit_note, "DESIGN.md 5/C07")
claim("C08", "property-based testing of call histories: generated memory edit histories on multi-memory bases against an identity-based reference model",
      "Stateful generated search over memory additions/deletions, data and export additions and injected instructions of every memory family (plain, atomic load/store/rmw/cmpxchg/wait/notify, SIMD, bulk); every memory immediate of every wasmparser operator is compared by identity.",
      _edit_note, "DESIGN.md 5/C08")
claim("C09", "property-based testing of call histories: deletions with and without remaining references; oracle = loud failure or exact identity-keyed entity set",
      "Stateful generated search: half of the deletions leave live references; then encode must panic and never return bytes (start section dropped is accepted); otherwise exactly the deleted entities are gone and all others keep identity and content.",
      _edit_note, "DESIGN.md 5/C09")
claim("C10", "property-based testing of call histories: replace_import_in_module on mixed-import bases against the identity model",
      "Stateful generated search: every function import of bases with interleaved non-function imports is a replacement target; former uses must designate the built body, everything else keeps identity, output validates.",
      _edit_note, "DESIGN.md 5/C10")
claim("C11", "property-based testing of call histories: local->import conversions in any order mixed with import additions against the identity model",
      "Stateful generated search over conversion orders (ascending, descending, mixed with import additions); uses must designate the new import with the given module/name/type.",
      _edit_note, "DESIGN.md 5/C11")
claim("C12", "property-based testing: a generated function is rebuilt through the FunctionBuilder and the decoded output is compared with the generator's own encoding of the same function (differential/round-trip oracle)",
      "Generated-input search: random signatures, locals and type-correct bodies over all feature families are injected instruction by instruction; the output must validate and equal, entity by entity, the module that contains the function natively (signature, locals, instructions + one end, name, returned ID).",
      "Trusted: wasmparser decoder/validator; wasm-encoder's encoding of the generated function as the expected value.", "DESIGN.md 5/C12")
claim("C13", "property-based testing of call histories: generated sequences of type additions incl. exact repeats; oracle = structural equality of the decoded type at the returned index, index stability, prefix preservation",
      "Generated-input search over func/array/struct additions with supertypes, finality and sharing on bases with rec groups and duplicate types.",
      "Trusted: wasmparser's Debug rendering of sub types as the structural form.", "DESIGN.md 5/C13")
claim("C14", "property-based testing of call histories: generated local additions through every API path; oracle = returned index arithmetic and decoded local lists",
      "Generated-input search over FunctionModifier::add_local/add_locals, ModuleIterator::add_local, ComponentIterator::add_local on generated modules; everything else must be unchanged.",
      "Trusted: wasmparser decoder/validator. FunctionBuilder::add_local is covered by C12.", "DESIGN.md 5/C14")
claim("C28", "property-based testing of call histories: generated custom-section edit sequences against a list model",
      "Generated-input search: bases with custom sections at random positions (duplicates, empty names, well-known names with arbitrary payloads) x add/delete/modify/lookup sequences; ordered (name, bytes) list and all other content compared.",
      "Trusted: wasmparser decoder.", "DESIGN.md 5/C28")
claim("C29", "property-based testing of call histories: index-shifting edits and naming calls against the identity-based model; names keyed by entity identity",
      "Generated-input search: function/local/global names decoded from the output are compared, keyed by the identity of the entity they are attached to; known stale-name-map classes are steered around and probed separately.",
      _edit_note, "DESIGN.md 5/C29")
claim("C30", "property-based testing of call histories: generated additions with boundary values (NaN payloads, v128, memory64/shared limits) against the identity-based model",
      "Generated-input search: the entity reached through each returned ID must have exactly the requested type/limits/bytes/initialiser bits; initialiser replacement changes only that global.",
      _edit_note, "DESIGN.md 5/C30")
_low_note = "Trusted: wasmparser decoder (structure-checking operator reader) and validator; the reference lowering, a short harness function written from the wording of C15/C21 and never derived from library output."
claim("C15", "property-based testing: generated bodies x generated before/after/alternate/removal plans through every injection API path; decoded output compared with an independent reference lowering",
      "Generated-input search: valid generated modules x plans of 1-8 injections (several per site, final-end sites, all six API paths incl. the component iterator); every decoded function body must equal the reference lowering and nothing else may change; plans without alternates must validate.",
      _low_note, "DESIGN.md 5/C15")
claim("C21", "property-based testing: generated nested constructs x block-alternate plans (replacement or empty, block/loop/if/else) combined with plain injections outside the regions; decoded output compared with the reference lowering",
      "Generated-input search over block-alternate plans on non-overlapping regions through every API path that accepts special modes; bodies must equal the reference lowering (construct removed through its matching end / else-arm removed with the end kept), no BUG log line.",
      _low_note, "DESIGN.md 5/C21")
claim("C22", "property-based testing: generated special-mode injections with unique marker payloads through every public API path; oracle = rejected at the call (panic) or marker present in the decoded output / construct gone, and no BUG log record",
      "Generated-input search over the path x mode matrix (7 special modes x 6 paths, two thirds on applicable instructions, one third anywhere); every accepted injection must be reflected in the encoded module. The class 'semantic-after on a branch to the function label' is a listed known finding: steered around in the main domain, probed separately.",
      "Trusted: wasmparser decoder; uniqueness of the i32.const marker payloads (markers start at 3001, generated constants are checked not to collide by construction of the payload search: exact operator text).", "DESIGN.md 5/C22")
claim("C23", "property-based testing of call histories: generated tagged additions and tagged probes; oracle = exactly one side-effect record per tag with the item's content, none for parsed items, probe bodies resolved through the decoded output by identity",
      "Stateful generated search over histories of tagged additions (types, imports, exports, functions, globals, memories, data) and tagged probes of every mode on identity-carrying bases, followed by pull_side_effects and encode; record set, record content and index space of probe bodies are compared with the model.",
      _edit_note, "DESIGN.md 5/C23")
claim("C24", "property-based testing: every helper of Opcode/MacroOpcode x generated immediates (boundary values, NaN payloads, values above i32/i64::MAX) through FunctionBuilder and ModuleIterator; oracle = byte equality of the encoded function body with wasm-encoder's encoding of the instruction a hand-written name table prescribes; plus exhaustive enumeration of all helpers",
      "Generated-input search over (helper, immediates, path); all 200 helpers are additionally enumerated with three fixed immediate sets on both paths in every run; a source scan of the two trait blocks reports helpers missing from the table.",
      "Trusted: the name -> instruction table (written from helper names and spec mnemonics, not from helper bodies); wasm-encoder's instruction encoding.", "DESIGN.md 5/C24")
claim("C25", "property-based testing: generated modules x generated skip lists plus exhaustive enumeration of all skip subsets for <=4 local functions; oracle = independently decoded instruction list of the non-skipped functions (location, operator, end flag), also after reset() and after a reset in the middle of a walk",
      "Generated-input search over modules (0-5 local functions) and skip lists (empty, first, last, trailing, all, random, foreign IDs); the visit sequence must equal the decoded instruction lists; no panic on modules without local functions or with everything skipped.",
      "Trusted: wasmparser operator reader as the reference instruction list; an empty iteration is observed through curr_op()/next() returning None (curr_loc() is only called while curr_op() is Some).", "DESIGN.md 5/C25")
claim("C26", "property-based testing: generated multi-module components x skip maps x injection plans; oracle (1) = independently decoded per-module instruction lists concatenated in module order, also after reset; oracle (2) = differential: modules extracted from the component instrumented through ComponentIterator vs the same modules instrumented alone through ModuleIterator (decoded content, rejected calls, encode panics)",
      "Generated-input search over components with 1-4 generated core modules (incl. modules without local functions), skip maps of every shape (missing entries, unsorted lists) and plans of 0-8 injections of all modes issued in one instrumenting pass on each side.",
      "Trusted: wasmparser decoder; for part (2) the library's module-level path is the reference, as the statement prescribes. Block types introduced by the function-exit lowering are compared structurally (their index among duplicate identical types is C04's subject).", "DESIGN.md 5/C26")
claim("C04", "property-based testing with a metamorphic oracle: every generated scenario (edit history over the C06-C08 alphabets, or instrumentation plan of every mode through every path, plus type additions hitting the de-duplication map) is built from scratch and encoded 3 times in-process (fresh hasher keys per build) and in 4 separate worker processes on the same seed (8 thorough); outputs must be byte-identical",
      "Generated-input search; in-process rebuilds compare bytes (or panic signatures), extra processes compare a per-case output hash with the first process's record. Non-trivial = scenario with at least one edit or injection.",
      "Trusted: the scenario generators shared with C05-C08/C15-C22; FNV-64 hash for the cross-process comparison (collisions would hide a difference, never raise one). Samples processes, cannot enumerate them.", "DESIGN.md 5/C04")
claim("C05", "property-based testing with a metamorphic oracle: generated scenario (edit history or instrumentation plan, as C04) -> encode three times, bytes must be equal; the scenario rebuilt from the same tape -> pull_side_effects() then encode() must give the same bytes again",
      "Generated-input search. The class 'history that re-indexes an index space' is a listed known finding (the ID maps are re-applied by every encode): the main domain uses the non-shifting alphabet plus all instrumentation plans, the class is probed separately (1/8 of the cases, unsteered).",
      "Trusted: the scenario generators shared with C04. A first encode that fails loudly discards the case (counted).", "DESIGN.md 5/C05")
