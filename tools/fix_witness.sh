#!/bin/bash
# usage: fix_witness.sh <commit> <ID>...  : reverts one fix commit in /repo's working tree (not committed),
# runs the quick checks, lists the violation files, restores /repo.
c=$1; shift
cd /repo || exit 2
if ! git diff --quiet; then echo "/repo has local changes"; exit 2; fi
git revert --no-commit $c >/dev/null 2>&1 || { echo "revert of $c conflicts"; git revert --abort 2>/dev/null; git reset -q --hard HEAD; exit 3; }
for id in "$@"; do
  out=$(cd /verif && ./check $id quick 2>/dev/null | grep -E "^VIOLATION|quick:|INCONCL" | cut -c1-220)
  echo "== revert $c / $id"; echo "$out"
done
git revert --abort 2>/dev/null; git reset -q --hard HEAD
