#!/usr/bin/env python3
"""adopt every replays/<ID>/viol-*.json as a known finding (one finding per signature)"""
import json, glob, os, re, subprocess, sys
root = os.path.dirname(os.path.dirname(os.path.abspath(__file__)))
prop = sys.argv[1]
hazard = sys.argv[2:]  # optional hazards applied to all
for f in sorted(glob.glob(os.path.join(root, "replays", prop, "viol-*.json"))):
    v = json.load(open(f))
    slug = re.sub(r'[^a-z0-9]+', '-', v["signature"].lower()).strip('-')[:60]
    what = v["detail"].split("\n")[0][:220]
    cmd = [os.path.join(root, "tools/adopt.py"), "known", f, "%s-%s" % (prop, slug), what]
    for h in hazard: cmd += ["--hazard", h]
    print(subprocess.check_output(cmd).decode().strip())
