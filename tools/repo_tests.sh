#!/bin/bash
# Runs the repository's own test suite (hooks off: no cfg flag is ever needed) and checks that
# every test of the pinned baseline (tools/baseline_tests.txt, 111 tests) passes.
here="$(cd "$(dirname "$0")" && pwd)"
cd "${REPO_DIR:-/repo}" || exit 2
log="$(mktemp)"
CARGO_NET_OFFLINE=true cargo test --workspace --no-fail-fast --offline >"$log" 2>&1
python3 - "$here/baseline_tests.txt" "$log" <<'PY'
import re,sys
want=[l.strip() for l in open(sys.argv[1]) if l.strip()]
ok=set(); cur=None
for line in open(sys.argv[2], errors='replace'):
    m=re.match(r'\s*Running (?:unittests )?(\S+)',line)
    if m:
        p=m.group(1)
        cur = 'lib' if 'src/lib.rs' in p else re.sub(r'.*/','',p).replace('.rs','')
    m=re.match(r'test (\S+)(?: - should panic)? \.\.\. ok',line)
    if m and cur:
        ok.add(('wirm::'+m.group(1)) if cur=='lib' else ('wirm::'+cur+'::'+m.group(1)))
missing=[w for w in want if w not in ok]
print(f"baseline tests passing: {len(want)-len(missing)}/{len(want)}")
for m in missing[:20]: print("  NOT PASSING:",m)
sys.exit(1 if missing else 0)
PY
rc=$?
rm -f "$log"
exit $rc
