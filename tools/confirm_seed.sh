#!/bin/bash
# usage: confirm_seed.sh <worktree-dir>   (a sub-agent's scratch worktree with out/patch.diff and out/seeded_demo.rs)
# Confirms: (1) patch applies to a clean checkout, (2) the pinned baseline tests pass with it,
# (3) the demonstration fails with it and (4) passes without it.  Writes <dir>/out/confirm.txt
d=$1
cd "$d" || exit 2
export CARGO_NET_OFFLINE=true CARGO_TARGET_DIR=$d/target
{
git checkout -q -- src 2>/dev/null; rm -f tests/seeded_demo.rs
git apply --check out/patch.diff && echo "APPLIES: yes" || { echo "APPLIES: no"; exit 1; }
cp out/seeded_demo.rs tests/seeded_demo.rs
cargo test --offline --test seeded_demo >/tmp/confirm.$$ 2>&1; rc=$?
echo "DEMO without change: rc=$rc $(grep -E '^test result' /tmp/confirm.$$ | head -1)"
git apply out/patch.diff
cargo test --offline --test seeded_demo >/tmp/confirm.$$ 2>&1; rc=$?
echo "DEMO with change: rc=$rc $(grep -E '^test result' /tmp/confirm.$$ | head -1)"
rm -f tests/seeded_demo.rs /tmp/confirm.$$
echo "SUITE with change: $(REPO_DIR=$d /verif/tools/repo_tests.sh | tr '\n' ' ')"
} > out/confirm.txt 2>&1
cat out/confirm.txt
