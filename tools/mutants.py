#!/usr/bin/env python3
"""Sensitivity campaign: syntactic mutants of /repo's library sources.

Not a check (nothing in MANIFEST.json calls it).  It answers, for a sample of small source
changes of the kind a slip produces (relational operator, off-by-one, dropped statement,
and/or, min/max, first/last, continue/break ...):

  * does the mutant compile,
  * does the repository's pinned test suite (111 tests) still pass with it,
  * which of the 30 quick checks report a VIOLATION on it.

The interesting class is "compiles, suite passes": those are the realistic changes the brief
talks about.  For each of them the record lists the checks that caught it; survivors are triaged
by hand (equivalent / outside the 30 statements / gap) in mutants/TRIAGE.md.

Everything happens in scratch copies (/tmp/mut/<lane>/{repo,harness,root}); /repo and /verif are
only read.  Usage:

  tools/mutants.py list                       # number of candidate sites per file / operator
  tools/mutants.py run <lanes> <n> <seed>     # sample n candidates (seeded), evaluate on <lanes> lanes
  tools/mutants.py one <id>                   # evaluate one candidate id in lane 0 (verbose)
  tools/mutants.py report                     # summary of mutants/results.jsonl
  tools/mutants.py clean                      # remove the scratch lanes

Results are appended to /verif/mutants/results.jsonl (one JSON object per mutant).
"""
import hashlib, json, os, random, re, shutil, subprocess, sys, threading, time

REPO = "/repo"
VERIF = os.path.dirname(os.path.dirname(os.path.abspath(__file__)))
SCR = "/tmp/mut"
RES = os.path.join(VERIF, "mutants", "results.jsonl")

FILES = [
    "src/ir/module/mod.rs", "src/ir/module/module_functions.rs", "src/ir/module/module_globals.rs",
    "src/ir/module/module_imports.rs", "src/ir/module/module_exports.rs", "src/ir/module/module_types.rs",
    "src/ir/module/module_memories.rs", "src/ir/module/module_tables.rs", "src/ir/module/side_effects.rs",
    "src/ir/function.rs", "src/ir/types.rs", "src/ir/component.rs", "src/ir/helpers.rs", "src/ir/id.rs",
    "src/ir/wrappers.rs", "src/iterator/module_iterator.rs", "src/iterator/component_iterator.rs",
    "src/iterator/iterator_trait.rs", "src/subiterator/function_subiterator.rs",
    "src/subiterator/module_subiterator.rs", "src/subiterator/component_subiterator.rs", "src/opcode.rs",
]

# (name, regex, replacement) - applied to the first match in a line
OPS = [
    ("le->lt", r" <= ", " < "), ("lt->le", r" < ", " <= "), ("ge->gt", r" >= ", " > "), ("gt->ge", r" > ", " >= "),
    ("eq->ne", r" == ", " != "), ("ne->eq", r" != ", " == "),
    ("and->or", r" && ", " || "), ("or->and", r" \|\| ", " && "),
    ("plus1->none", r" \+ 1\b", ""), ("minus1->none", r" - 1\b", ""), ("plus1->plus2", r" \+ 1\b", " + 2"),
    ("plus->minus", r" \+ (?=[a-z_(])", " - "), ("minus->plus", r" - (?=[a-z_(])", " + "),
    ("pluseq1->2", r" \+= 1;", " += 2;"), ("pluseq->minuseq", r" \+= ", " -= "),
    ("true->false", r"\btrue\b", "false"), ("false->true", r"\bfalse\b", "true"),
    ("not->id", r"if !(?=[a-z_(])", "if "), ("id->not", r"\bif (?=(self\.|[a-z_]+\.)[a-z_\.]+\(\) \{)", "if !"),
    ("min->max", r"\.min\(", ".max("), ("max->min", r"\.max\(", ".min("),
    ("first->last", r"\.first\(\)", ".last()"), ("last->first", r"\.last\(\)", ".first()"),
    ("continue->break", r"\bcontinue;", "break;"), ("break->continue", r"\bbreak;", "continue;"),
    ("zero->one", r"(?<=[ (\[])0(?=[;,)\]])", "1"), ("one->zero", r"(?<=[ (\[])1(?=[;,)\]])", "0"),
    ("as-u32-plus1", r"\.len\(\) as u32\b", ".len() as u32 + 1"),
    ("some->none", r"= Some\([a-z_\.]+\);", "= None;"),
]
DELETE = re.compile(r"^\s*(self\.|\*?[a-z_][A-Za-z0-9_\.\[\]]*)(\.[a-z_0-9]+\(.*\)|\s[+\-|&]?=\s.*);\s*$")
SKIP_LINE = re.compile(r"^\s*(//|#\[|use |pub use |fn |pub fn |pub\(crate\) fn |impl|pub struct|struct|where|let .*: .*<.*> = |type )|assert|panic!|unreachable!|error!\(|warn!\(|trace!\(|debug!\(|info!\(|unimplemented!|todo!|\bprintln!|\beprintln!|format!\(|-> ")


def candidates():
    out = []
    for f in FILES:
        p = os.path.join(REPO, f)
        if not os.path.exists(p):
            continue
        lines = open(p).read().split("\n")
        in_test = False
        for i, line in enumerate(lines):
            if re.match(r"^\s*#\[cfg\(test\)\]", line):
                in_test = True
            if in_test and re.match(r"^\}", line):
                in_test = False
                continue
            if in_test or SKIP_LINE.search(line) or not line.strip():
                continue
            body = line.split("//")[0]
            for name, rx, rep in OPS:
                m = re.search(rx, body)
                if m:
                    new = body[: m.start()] + re.sub(rx, rep, body[m.start():], count=1)
                    if new != body:
                        out.append((f, i + 1, name, line, new))
            if DELETE.match(body) and body.count("(") == body.count(")") and body.count("{") == body.count("}"):
                if not re.match(r"^\s*(let|return|break|continue)\b", body):
                    out.append((f, i + 1, "delete-stmt", line, ""))
            # one alternative of a multi-line or-pattern ("forgotten case")
            if re.match(r"^\s*\| [A-Z]", body) and "=>" not in body:
                out.append((f, i + 1, "drop-alt", line, ""))
    res = []
    for f, ln, name, old, new in out:
        mid = hashlib.sha1(f"{f}:{old.strip()}:{name}:{ln}".encode()).hexdigest()[:10]
        res.append({"id": mid, "file": f, "line": ln, "op": name, "old": old, "new": new})
    return res


def sh(cmd, cwd=None, env=None, timeout=None):
    e = dict(os.environ)
    e.update({"CARGO_NET_OFFLINE": "true"})
    if env:
        e.update(env)
    try:
        r = subprocess.run(cmd, shell=True, cwd=cwd, env=e, timeout=timeout, stdout=subprocess.PIPE, stderr=subprocess.STDOUT, text=True, errors="replace")
        return r.returncode, r.stdout
    except subprocess.TimeoutExpired as x:
        return 124, (x.stdout or b"").decode(errors="replace") if isinstance(x.stdout, bytes) else (x.stdout or "")


def ids():
    m = json.load(open(os.path.join(VERIF, "MANIFEST.json")))
    return [c["property_id"] for c in m["checks"]]


def lane_setup(k):
    L = f"{SCR}/{k}"
    os.makedirs(L, exist_ok=True)
    if not os.path.isdir(f"{L}/repo"):
        rc, o = sh(f"git -C {REPO} worktree add --detach {L}/repo HEAD")
        if rc != 0:
            raise SystemExit("worktree: " + o)
    head = subprocess.check_output(["git", "-C", REPO, "rev-parse", "HEAD"], text=True).strip()
    sh(f"git -C {L}/repo checkout -q --detach {head}; git -C {L}/repo checkout -q -- .")
    sh(f"rsync -a --delete --exclude target --exclude fuzz/target --exclude fuzz/corpus --exclude fuzz/artifacts {VERIF}/harness/ {L}/harness/")
    sh(f"sed -i 's|path = \"/repo\"|path = \"{L}/repo\"|' {L}/harness/Cargo.toml")
    return L


def fresh_root(L):
    shutil.rmtree(f"{L}/root", ignore_errors=True)
    os.makedirs(f"{L}/root/evidence")
    shutil.copy(f"{VERIF}/known_findings.json", f"{L}/root/")
    shutil.copytree(f"{VERIF}/replays", f"{L}/root/replays")
    sh(f"rm -f {L}/root/replays/*/viol-*.json")


def evaluate(L, c, jobs, verbose=False, skip_suite=False):
    rec = dict(c)
    t0 = time.time()
    sh(f"git -C {L}/repo checkout -q -- .")
    p = f"{L}/repo/{c['file']}"
    lines = open(p).read().split("\n")
    if lines[c["line"] - 1] != c["old"]:
        rec["status"] = "stale-candidate"
        return rec
    lines[c["line"] - 1] = c["new"]
    open(p, "w").write("\n".join(lines))
    env = {"CARGO_TARGET_DIR": f"{L}/repo/target", "CARGO_BUILD_JOBS": str(jobs)}
    rc, o = sh("cargo build --offline --lib 2>&1 | tail -15", cwd=f"{L}/repo", env=env, timeout=1200)
    if "error" in o and ("could not compile" in o or "error[" in o or "error:" in o):
        rec["status"] = "nocompile"
        sh(f"git -C {L}/repo checkout -q -- .")
        return rec
    # the repository's own suite
    rc, o = (0, "suite passed in an earlier evaluation") if skip_suite else sh(f"REPO_DIR={L}/repo timeout 2400 {VERIF}/tools/repo_tests.sh", env=env, timeout=2500)
    rec["suite"] = "pass" if rc == 0 else ("timeout" if rc == 124 else "fail")
    rec["suite_line"] = (o.strip().split("\n") or [""])[0][:120]
    if verbose:
        print(o)
    if rec["suite"] != "pass" and not os.environ.get("MUT_ALWAYS_CHECK"):
        rec["status"] = "killed-by-suite"
        rec["secs"] = int(time.time() - t0)
        sh(f"git -C {L}/repo checkout -q -- .")
        return rec
    # our quick checks
    rc, o = sh("cargo build --release --offline 2>&1 | tail -15", cwd=f"{L}/harness", env={"CARGO_BUILD_JOBS": str(jobs)}, timeout=2400)
    if rc != 0 or "could not compile" in o:
        rec["status"] = "harness-nocompile"
        rec["detail"] = o[-400:]
        sh(f"git -C {L}/repo checkout -q -- .")
        return rec
    fresh_root(L)
    killed, incon, lines_ = [], [], {}
    for pid in ids():
        rc, o = sh(f"{L}/harness/target/release/vcheck run {pid} quick", env={"VERIF_ROOT": f"{L}/root", "VERIF_SEED": os.environ.get("MUT_SEED", "1"), "VERIF_THREADS": str(max(4, jobs))}, timeout=1500)
        v = [l for l in o.split("\n") if l.startswith("VIOLATION")]
        if v:
            killed.append(pid)
            # keep the class of the first violation (from the summary line when present)
            s = [l for l in o.split("\n") if f"{pid} quick:" in l]
            lines_[pid] = (s[0] if s else v[0]).replace(f"{L}/root", ".")[:220]
        elif rc != 0:
            incon.append(pid)
            s = [l for l in o.split("\n") if "INCONCL" in l or f"{pid} quick:" in l]
            lines_[pid] = (s[0] if s else f"rc={rc}")[:220]
        if verbose:
            print(pid, rc, lines_.get(pid, ""))
    rec["killed_by"] = killed
    rec["inconclusive"] = incon
    rec["lines"] = lines_
    rec["status"] = "killed" if killed else ("inconclusive" if incon else "survived")
    rec["secs"] = int(time.time() - t0)
    sh(f"git -C {L}/repo checkout -q -- .")
    return rec


def done_ids():
    s = set()
    if os.path.exists(RES):
        for l in open(RES):
            try:
                s.add(json.loads(l)["id"])
            except Exception:
                pass
    return s


def main():
    a = sys.argv[1:]
    if not a or a[0] == "list":
        cs = candidates()
        by = {}
        for c in cs:
            by[c["file"]] = by.get(c["file"], 0) + 1
            by["op:" + c["op"]] = by.get("op:" + c["op"], 0) + 1
        for k in sorted(by):
            print(f"{by[k]:6d} {k}")
        print(len(cs), "candidates")
    elif a[0] == "run":
        lanes, n, seed = int(a[1]), int(a[2]), int(a[3])
        jobs = int(os.environ.get("MUT_JOBS", "4"))
        cs = candidates()
        rnd = random.Random(seed)
        have = done_ids()
        # stratify by file so that the big files do not take every slot
        rnd.shuffle(cs)
        # dropped statements are half of all candidates: keep 4 in 10 of them
        cs = [c for c in cs if c["op"] != "delete-stmt" or rnd.random() < 0.4]
        byfile = {}
        for c in cs:
            byfile.setdefault(c["file"], []).append(c)
        weights = {f: max(1, int(len(v) ** 0.75)) for f, v in byfile.items()}
        pick = []
        files = sorted(byfile)
        while len(pick) < n and any(byfile.values()):
            f = rnd.choices(files, [weights[x] if byfile[x] else 0 for x in files])[0]
            c = byfile[f].pop()
            if c["id"] not in have:
                pick.append(c)
        os.makedirs(os.path.dirname(RES), exist_ok=True)
        lock = threading.Lock()
        q = list(pick)

        def worker(k):
            L = lane_setup(k)
            while True:
                with lock:
                    if not q or os.path.exists(f"{SCR}/STOP"):
                        return
                    c = q.pop(0)
                try:
                    rec = evaluate(L, c, jobs)
                except Exception as e:  # infrastructure problem: record and go on
                    rec = dict(c); rec["status"] = "tool-error"; rec["detail"] = repr(e)[:300]
                rec["head"] = subprocess.check_output(["git", "-C", REPO, "rev-parse", "--short", "HEAD"], text=True).strip()
                with lock:
                    open(RES, "a").write(json.dumps(rec) + "\n")
                    print(time.strftime("%H:%M:%S"), k, rec["id"], rec["file"], rec["line"], rec["op"], rec["status"], rec.get("killed_by", ""), flush=True)

        ts = [threading.Thread(target=worker, args=(k,)) for k in range(lanes)]
        [t.start() for t in ts]
        [t.join() for t in ts]
    elif a[0] == "one":
        cs = [c for c in candidates() if c["id"] == a[1]]
        if not cs:
            raise SystemExit("no such candidate")
        L = lane_setup(int(os.environ.get("MUT_LANE", "0")))
        print(json.dumps(evaluate(L, cs[0], int(os.environ.get("MUT_JOBS", "8")), verbose=True), indent=1))
    elif a[0] == "recheck":
        # survivors (suite passes, no check caught them) once more, with the harness as it is now
        rs = [json.loads(l) for l in open(RES)]
        last = {}
        for r in rs:
            last[r["id"]] = r
        todo = [r for r in last.values() if r.get("status") in ("survived", "inconclusive")]
        if len(a) > 1:
            todo = [r for r in todo if r["id"] in a[1:]]
        L = lane_setup(int(os.environ.get("MUT_LANE", "9")))
        cs = {c["id"]: c for c in candidates()}
        for r in todo:
            if r["id"] not in cs:
                continue
            rec = evaluate(L, cs[r["id"]], int(os.environ.get("MUT_JOBS", "8")), skip_suite=True)
            rec["suite"] = "pass"
            rec["recheck"] = True
            rec["harness"] = subprocess.check_output(["git", "-C", VERIF, "rev-parse", "--short", "HEAD"], text=True).strip()
            open(RES, "a").write(json.dumps(rec) + "\n")
            print(time.strftime("%H:%M:%S"), rec["id"], rec["file"], rec["line"], rec["op"], rec["status"], rec.get("killed_by", ""), flush=True)
    elif a[0] == "report":
        rs0 = [json.loads(l) for l in open(RES)]
        last = {}
        for r in rs0:
            last[r["id"]] = r
        rs = list(last.values())
        first_survivors = len({r["id"] for r in rs0 if r.get("status") == "survived" and not r.get("recheck")})
        print("survivors at first evaluation:", first_survivors)
        by = {}
        for r in rs:
            by[r["status"]] = by.get(r["status"], 0) + 1
        print(len(rs), "mutants:", by)
        passing = [r for r in rs if r.get("suite") == "pass"]
        print("compile + suite passes:", len(passing), " caught by a quick check:", sum(1 for r in passing if r["status"] == "killed"))
        per = {}
        for r in passing:
            for k in r.get("killed_by", []):
                per[k] = per.get(k, 0) + 1
        print("caught per check:", dict(sorted(per.items())))
        tri = {}
        tp = os.path.join(VERIF, "mutants", "triage.json")
        if os.path.exists(tp):
            tri = json.load(open(tp))
        cls = {}
        for r in passing:
            if r["status"] != "killed":
                k = tri.get(r["id"], ["untriaged"])[0]
                cls[k] = cls.get(k, 0) + 1
        print("survivors by triage class:", cls)
        for r in passing:
            if r["status"] != "killed" and r["id"] in tri:
                continue
            if r["status"] != "killed":
                print("SURVIVED" if r["status"] == "survived" else r["status"].upper(), r["id"], f"{r['file']}:{r['line']}", r["op"], "|", r["old"].strip()[:110])
    elif a[0] == "triage-md":
        rs0 = [json.loads(l) for l in open(RES)]
        last = {}
        for r in rs0:
            last[r["id"]] = r
        tri = json.load(open(os.path.join(VERIF, "mutants", "triage.json")))
        first_surv = {r["id"] for r in rs0 if r.get("status") == "survived" and not r.get("recheck")}
        out = ["# Mutants that pass the repository's tests: survivors of the quick checks, triaged", "",
               "Generated by `tools/mutants.py triage-md` from `results.jsonl` and `triage.json`.", "",
               "Classes: **equivalent** - no observable difference in any encoded output or returned value;",
               "**outside** - observable, but only through an API or an input no listed statement covers;",
               "**gap-closed** - a generator or oracle gap; closed, the mutant is caught now (see DESIGN 10.9).", ""]
        out.append("| mutant | site | change | class | reason |")
        out.append("|---|---|---|---|---|")
        for mid in sorted(first_surv, key=lambda i: (last[i]["file"], last[i]["line"])):
            r = last[mid]
            if r["status"] == "killed":
                cls, why = "gap-closed", "caught by " + ", ".join(r.get("killed_by", [])) + " after the generators / oracles were extended"
                if mid in tri:
                    why = tri[mid][1] + " - " + why
            else:
                cls, why = tri.get(mid, ["untriaged", ""])
            out.append("| %s | %s:%d | %s: `%s` | %s | %s |" % (mid, r["file"].replace("src/", ""), r["line"], r["op"], r["old"].strip().replace("|", "\\|")[:70], cls, why))
        open(os.path.join(VERIF, "mutants", "TRIAGE.md"), "w").write("\n".join(out) + "\n")
        print("written", len(first_surv), "rows")
    elif a[0] == "clean":
        for k in os.listdir(SCR) if os.path.isdir(SCR) else []:
            if os.path.isdir(f"{SCR}/{k}/repo"):
                sh(f"git -C {REPO} worktree remove --force {SCR}/{k}/repo")
        shutil.rmtree(SCR, ignore_errors=True)
        sh(f"git -C {REPO} worktree prune")


if __name__ == "__main__":
    main()
