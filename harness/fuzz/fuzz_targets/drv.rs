//! Coverage-guided search over the byte tape of any driver: VERIF_FUZZ_ID selects the property.
//! The tape decoder, generators and oracle are exactly those of `./check <ID>`; a failure that
//! is not a listed known finding aborts the process, libFuzzer saves the tape as the artifact.
#![no_main]
use libfuzzer_sys::fuzz_target;
use std::sync::OnceLock;
use vharness::engine::*;

struct Ctx {
    d: &'static dyn Driver,
    findings: Findings,
    hz: Hazards,
}
fn ctx() -> &'static Ctx {
    static C: OnceLock<Ctx> = OnceLock::new();
    C.get_or_init(|| {
        let id = std::env::var("VERIF_FUZZ_ID").unwrap_or_else(|_| "C01".into());
        let root = std::env::var("VERIF_ROOT").unwrap_or_else(|_| "/verif".into());
        let d: &'static dyn Driver = Box::leak(vharness::props::get(&id).expect("unknown property id"));
        let findings = Findings::load(&format!("{}/known_findings.json", root));
        let hz = findings.hazards_for(d.id());
        // the library prints from ComponentIterator::new
        unsafe {
            let devnull = libc_open();
            if devnull >= 0 {
                dup2(devnull, 1);
            }
        }
        vharness::capture::init();
        Ctx { d, findings, hz }
    })
}
extern "C" {
    fn open(path: *const std::os::raw::c_char, flags: i32, ...) -> i32;
    fn dup2(a: i32, b: i32) -> i32;
}
unsafe fn libc_open() -> i32 {
    open(b"/dev/null\0".as_ptr() as *const std::os::raw::c_char, 1)
}

fuzz_target!(|data: &[u8]| {
    let c = ctx();
    // libFuzzer's own panic hook aborts on every panic; ours records and lets catch_unwind work
    vharness::capture::init();
    let mut st = Stats::default();
    let (o, _, _) = run_one(c.d, data, &mut st, &c.hz, Mode::Main, Tier::Thorough, false);
    if let Outcome::Fail(f) = pick_failure(c.d.id(), &c.findings, o) {
        if c.findings.matches(c.d.id(), &f.sig).is_none() && !f.sig.starts_with("harness:") {
            eprintln!("FUZZ-VIOLATION property={} signature={}\n{}", c.d.id(), f.sig, f.detail);
            std::process::abort();
        }
    }
});
