//! C03 on raw bytes: Module::parse and Component::parse must return Ok or Err on any input.
//! Panics that match a listed known finding (by file + message signature) are tolerated so
//! that the campaign continues behind them; anything else aborts.
#![no_main]
use libfuzzer_sys::fuzz_target;
use std::sync::OnceLock;
use vharness::capture::run_lib;
use vharness::engine::Findings;

fn findings() -> &'static Findings {
    static C: OnceLock<Findings> = OnceLock::new();
    C.get_or_init(|| {
        let root = std::env::var("VERIF_ROOT").unwrap_or_else(|_| "/verif".into());
        vharness::capture::init();
        Findings::load(&format!("{}/known_findings.json", root))
    })
}

fuzz_target!(|data: &[u8]| {
    let f = findings();
    vharness::capture::init();
    // deep nesting overflows the stack (listed finding, fatal): stay below it
    if data.len() > 60_000 {
        return;
    }
    for mm in [false, true] {
        for which in 0..2 {
            let r = if which == 0 { run_lib(|| wirm::Module::parse(data, mm).is_ok()) } else { run_lib(|| wirm::Component::parse(data, mm).is_ok()) };
            if let Err(p) = r {
                let sig = format!("panic:{}", p.signature().trim_start_matches("panic:"));
                if f.matches("C03", &sig).is_none() && f.matches("C03", &p.signature()).is_none() {
                    // hunting mode (VERIF_FUZZ_COLLECT=<dir>): record one input per new signature and go on
                    if let Ok(dir) = std::env::var("VERIF_FUZZ_COLLECT") {
                        let name: String = p.signature().chars().map(|c| if c.is_ascii_alphanumeric() { c } else { '_' }).take(80).collect();
                        let path = format!("{}/{}", dir, name);
                        if !std::path::Path::new(&path).exists() {
                            let _ = std::fs::write(&path, data);
                            let _ = std::fs::write(format!("{}.txt", path), format!("{}:{} {}", p.file, p.line, p.msg));
                        }
                        continue;
                    }
                    eprintln!("FUZZ-VIOLATION property=C03 signature={}\n{}:{} {}", sig, p.file, p.line, p.msg);
                    std::process::abort();
                }
            }
        }
    }
});
