//! Helpers shared by the drivers.
use crate::capture::{mask, run_lib, PanicInfo};
use crate::engine::{fail, Case, Outcome};
use crate::gen::{GenCfg, Kind, Profile};

pub fn panic_fail(stage: &str, p: &PanicInfo) -> Outcome {
    fail(format!("{}:{}", stage, p.signature()), format!("{} panicked at {}:{}: {}", stage, p.file, p.line, p.msg))
}

/// Parse with the library; classify panic / Err.
pub fn lib_parse<'a>(bytes: &'a [u8], mm: bool) -> Result<wirm::Module<'a>, Outcome> {
    match run_lib(|| wirm::Module::parse(bytes, mm)) {
        Err(p) => Err(panic_fail("parse", &p)),
        Ok(Err(e)) => Err(fail(format!("parse-err:{}", mask(&format!("{:?}", e), 50)), format!("Module::parse returned Err on a valid module: {:?}", e))),
        Ok(Ok(m)) => Ok(m),
    }
}

pub fn lib_encode(m: &mut wirm::Module) -> Result<Vec<u8>, Outcome> {
    match run_lib(|| m.encode()) {
        Err(p) => Err(panic_fail("encode", &p)),
        Ok(b) => Ok(b),
    }
}

/// Steering shared by every driver that generates G-static / G-edit modules.
pub fn steer_cfg(c: &mut Case, kind: Kind, profile: Profile) -> GenCfg {
    let mut cfg = GenCfg::new(kind, profile);
    if c.avoid("exnref_nullable") {
        cfg.avoid_exnref = true;
    }
    if c.avoid("name_section_before_code") {
        cfg.avoid_early_names = true;
    }
    cfg
}
