//! C04 (encoding is deterministic across runs and processes) and C05 (encoding again without
//! edits gives the same bytes).  Both run the scenarios of C06-C08 (edit histories) and of
//! C15-C22 (instrumentation plans of every mode, through every API path).
use super::common::*;
use super::edit::{Alphabet, Applied, EditDriver};
use super::instr::*;
use crate::capture::{mask, run_lib};
use crate::dec::module as dm;
use crate::engine::*;
use crate::gen::{gen_module, Kind, Profile};
use crate::tape::fnv;
use std::collections::BTreeSet;

fn never_nt(_: &Applied, _: &super::edit::World, _: &dm::Dec, _: &dm::Dec) -> bool {
    false
}

/// the union of the alphabets of C06, C07, C08 (no dangling deletions: those belong to C09)
fn history_driver(shifting: bool) -> EditDriver {
    let all = Alphabet {
        func_add: true,
        func_import_add: shifting,
        func_delete: shifting,
        l2i: shifting,
        i2l: shifting,
        func_export: true,
        inject: true,
        global_add: true,
        global_import_add: shifting,
        global_iter_add: true,
        global_delete: shifting,
        global_modinit: true,
        mem_add: true,
        mem_import_add: shifting,
        mem_delete: shifting,
        data_add: true,
        mem_export: true,
        ..Default::default()
    };
    EditDriver { pid: "C05", rule_text: "", alphabet: all, max_ops: 8, quick: 0, thorough: 0, compare_names: false, only_names: false, nontrivial_rule: never_nt }
}

pub enum Built<'x, 'a> {
    M(&'x mut wirm::Module<'a>),
    C(&'x mut wirm::Component<'a>),
}
impl Built<'_, '_> {
    pub fn encode(&mut self) -> Vec<u8> {
        match self {
            Built::M(m) => m.encode(),
            Built::C(c) => c.encode(),
        }
    }
    pub fn is_module(&self) -> bool {
        matches!(self, Built::M(_))
    }
}

pub struct ScenarioInfo {
    pub kind: &'static str,
    pub edits: usize,
    pub injections: usize,
    pub special: usize,
    pub reindexed: bool,
    pub fp: u64,
}

fn applicable(mode: IMode, op: &str) -> bool {
    let n = dm::op_name(op);
    let blockish = matches!(n, "Block" | "Loop" | "If" | "Else");
    let branch = matches!(n, "Br" | "BrIf" | "BrTable" | "BrOnCast" | "BrOnCastFail" | "BrOnNull" | "BrOnNonNull");
    let structural = matches!(n, "Block" | "Loop" | "If" | "Else" | "End" | "TryTable" | "Try" | "Catch" | "CatchAll" | "Delegate");
    match mode {
        IMode::SemAfter => blockish || branch,
        IMode::BlockEntry | IMode::BlockExit | IMode::BlockAlt | IMode::EmptyBlockAlt => blockish,
        IMode::Alt | IMode::EmptyAlt => !structural,
        _ => true,
    }
}

/// Plan scenario: G-static module, 1-8 injections of all modes through all paths; one time
/// in three the module also gets add_func_type calls for signatures it already has.
fn plan_scenario(c: &mut Case, shifting_ok: bool, fin: &mut dyn FnMut(&mut Case, Built, &ScenarioInfo) -> Outcome) -> Outcome {
    let mut profile = Profile::from_tape(&mut c.t);
    profile.gc = profile.gc && c.t.bool();
    let mut cfg = steer_cfg(c, Kind::Static, profile);
    cfg.max_funcs = 3;
    cfg.min_funcs = 1;
    cfg.max_stmts = 5;
    let m = gen_module(&mut c.t, &cfg);
    let bytes = m.encode();
    if let Err(e) = dm::validate(&bytes) {
        c.gen_invalid();
        c.note(|| format!("GENERATOR BUG: {}\n{}", e, dm::print_wat(&bytes)));
        return Outcome::Discard("generator produced an invalid module");
    }
    let Ok(din) = dm::decode(&bytes) else { return Outcome::Discard("undecodable base") };
    let lf: Vec<u32> = (0..din.funcs.len() as u32).filter(|i| din.funcs[*i as usize].import.is_none()).collect();
    if lf.is_empty() {
        return Outcome::Discard("no local function");
    }
    let component = c.t.chance(1, 4);
    let n = c.t.range(1, 8);
    let mut plan: Vec<Inj> = vec![];
    let mut marker = 7000;
    for _ in 0..n {
        let f = *c.t.pick(&lf);
        let ops = &din.funcs[f as usize].ops;
        let mode = *c.t.pick(&[
            IMode::Before, IMode::After, IMode::Alt, IMode::EmptyAlt, IMode::SemAfter, IMode::BlockEntry, IMode::BlockExit, IMode::BlockAlt, IMode::EmptyBlockAlt, IMode::FuncEntry, IMode::FuncExit, IMode::Before, IMode::After,
        ]);
        // diagnosis aid: VERIF_ONLY_MODES=block_alt,before restricts the plan modes
        if let Ok(only) = std::env::var("VERIF_ONLY_MODES") {
            if !only.split(',').any(|m| m == mode.name()) {
                continue;
            }
        }
        let fitting: Vec<usize> = (0..ops.len()).filter(|i| applicable(mode, &ops[*i])).collect();
        if fitting.is_empty() {
            continue;
        }
        let at = *c.t.pick(&fitting);
        if mode.is_func_level() && plan.iter().any(|i| i.func == f && i.mode == mode) {
            continue;
        }
        marker += 1;
        let path = if component {
            *c.t.pick(&[Path::CompCur, Path::CompInjectAt, Path::ModAt, Path::IterCur])
        } else {
            *c.t.pick(&[Path::IterCur, Path::IterInjectAt, Path::ModAt, Path::ModInjectAt])
        };
        let payload = if matches!(mode, IMode::EmptyAlt | IMode::EmptyBlockAlt) { vec![] } else { marker_payload(marker) };
        plan.push(Inj { func: f, instr: at, mode, path, payload, marker });
    }
    if plan.is_empty() {
        return Outcome::Discard("empty plan");
    }
    order_plan(&mut plan);
    // type additions that hit the de-duplication map (signatures the module already has)
    let mut type_adds: Vec<(Vec<wirm::DataType>, Vec<wirm::DataType>)> = vec![];
    if !component && c.t.chance(1, 2) {
        let n = c.t.range(1, 3);
        for _ in 0..n {
            let mut sigs: Vec<&crate::gen::GType> = m.types.iter().filter(|t| matches!(t.comp, crate::gen::GComposite::Func { .. })).collect();
            if sigs.is_empty() {
                break;
            }
            // signatures that only exist as open / derived declarations are the interesting
            // lookups: the exact (final) key is absent, whatever the library does next
            let open: Vec<&crate::gen::GType> = sigs.iter().copied().filter(|t| !t.is_final).collect();
            if !open.is_empty() && c.t.bool() {
                sigs = open;
                c.class("type_add_of_open_signature");
            }
            if let crate::gen::GComposite::Func { params, results } = &c.t.pick(&sigs).comp {
                if params.iter().chain(results.iter()).all(|v| v.is_num()) {
                    type_adds.push((params.iter().map(|v| super::edit::dt(*v)).collect(), results.iter().map(|v| super::edit::dt(*v)).collect()));
                }
            }
        }
    }
    // near-twins of struct / array types the module already has (one field's mutability flipped,
    // everything else - supertype, finality - equal): additions that must MISS the
    // de-duplication map whatever the hasher keys are.  Drawn after everything else on the tape.
    let mut twin_adds: Vec<crate::gen::GType> = vec![];
    if !component {
        let gc: Vec<&crate::gen::GType> = m
            .types
            .iter()
            .filter(|t| match &t.comp {
                crate::gen::GComposite::Struct { fields } => !fields.is_empty(),
                crate::gen::GComposite::Array { .. } => true,
                _ => false,
            })
            .collect();
        if !gc.is_empty() && c.t.chance(1, 2) {
            let n = c.t.range(1, 4);
            for _ in 0..n {
                let mut t = (*c.t.pick(&gc)).clone();
                match &mut t.comp {
                    crate::gen::GComposite::Struct { fields } => {
                        let k = c.t.below(fields.len());
                        fields[k].1 = !fields[k].1;
                    }
                    crate::gen::GComposite::Array { mutable, .. } => *mutable = !*mutable,
                    _ => {}
                }
                twin_adds.push(t);
            }
            c.class("twin_of_an_existing_gc_type_added");
        }
    }
    let special = plan.iter().filter(|i| i.mode.is_special()).count();
    let dup_types = {
        let mut seen = BTreeSet::new();
        din.types.iter().any(|t| !seen.insert(t.clone()))
    };
    let plan_txt = plan.iter().map(|i| format!("  func {} instr {} {} via {} marker {}", i.func, i.instr, i.mode.name(), i.path.name(), i.marker)).collect::<Vec<_>>().join("\n");
    c.note(|| format!("MODULE (component wrapper: {})\n{}\nPLAN\n{}\nTYPE ADDITIONS {:?}\nTWIN TYPE ADDITIONS {:?}", component, dm::print_wat(&bytes), plan_txt, type_adds, twin_adds));
    c.class(if component { "scenario:plan_component" } else { "scenario:plan_module" });
    if dup_types && (plan.iter().any(|i| i.mode == IMode::FuncExit) || !type_adds.is_empty()) {
        c.class("duplicate_types_and_type_lookup");
    }
    let info = ScenarioInfo { kind: "plan", edits: type_adds.len(), injections: plan.len(), special, reindexed: shifting_ok && !type_adds.is_empty() && !component, fp: fnv(&bytes) ^ fnv(plan_txt.as_bytes()) ^ type_adds.len() as u64 };
    if component {
        let comp_bytes = super::c03::wrap_component(&bytes, false, 1);
        let mut comp = match run_lib(|| wirm::Component::parse(&comp_bytes, true)) {
            Ok(Ok(x)) => x,
            Ok(Err(e)) => return fail("component-parse-err", format!("{:?}", e)),
            Err(p) => return panic_fail("component-parse", &p),
        };
        for inj in &plan {
            let _ = run_lib(|| apply_any(None, Some(&mut comp), inj));
        }
        fin(c, Built::C(&mut comp), &info)
    } else {
        let mut module = match lib_parse(&bytes, true) {
            Ok(m) => m,
            Err(o) => return o,
        };
        for inj in &plan {
            let _ = run_lib(|| apply_any(Some(&mut module), None, inj));
        }
        for (k, (p, r)) in type_adds.iter().enumerate() {
            // the returned index is used (an import of that type), so it shows in the output
            let _ = run_lib(|| {
                let ty = module.types.add_func_type(p, r, None);
                if shifting_ok {
                    module.add_import_func("ta".to_string(), format!("t{}", k), ty);
                }
            });
        }
        for t in &twin_adds {
            let sup = t.supertype.map(wirm::ir::id::TypeID);
            let _ = run_lib(|| match &t.comp {
                crate::gen::GComposite::Struct { fields } => {
                    let f: Vec<wirm::DataType> = fields.iter().map(|(s, _)| super::small::storage_dt(s)).collect();
                    let mu: Vec<bool> = fields.iter().map(|(_, m)| *m).collect();
                    module.types.add_struct_type_with_params(f, mu, sup, t.is_final, false, None)
                }
                crate::gen::GComposite::Array { elem, mutable } => module.types.add_array_type_with_params(super::small::storage_dt(elem), *mutable, sup, t.is_final, false, None),
                _ => wirm::ir::id::TypeID(0),
            });
        }
        fin(c, Built::M(&mut module), &info)
    }
}

/// A scenario from the tape: 0 = edit history, 1 = plan.
pub fn scenario(c: &mut Case, shifting_ok: bool, fin: &mut dyn FnMut(&mut Case, Built, &ScenarioInfo) -> Outcome) -> Outcome {
    if c.t.bool() {
        let d = history_driver(shifting_ok);
        let mut ap = Applied::new();
        let mut f2 = |c: &mut Case, m: &mut wirm::Module, ap: &Applied| {
            let mut kinds: Vec<&str> = ap.kinds.clone();
            kinds.sort();
            let info = ScenarioInfo {
                kind: "history",
                edits: ap.kinds.len(),
                injections: ap.kinds.iter().filter(|k| k.starts_with("inject")).count(),
                special: 0,
                reindexed: ap.shifted_f
                    || ap.shifted_g
                    || ap.shifted_m
                    || ap.kinds.iter().any(|k| {
                        matches!(*k, "add_import_func" | "delete_func" | "local_to_import" | "import_to_local" | "add_imported_global" | "delete_global" | "add_import_memory" | "delete_memory")
                    }),
                fp: fnv(c.rendered.as_bytes()) ^ fnv(format!("{:?}", kinds).as_bytes()),
            };
            c.class("scenario:history");
            if info.reindexed {
                c.class("history_reindexes");
            }
            fin(c, Built::M(m), &info)
        };
        let mut reached = false;
        let mut f3 = |c: &mut Case, m: &mut wirm::Module, ap: &Applied| {
            reached = true;
            f2(c, m, ap)
        };
        let o = d.scenario(c, &mut ap, &mut f3);
        // a history the library rejects (or mishandles) while it is being applied is the
        // subject of C06-C11, not of the encode-level properties
        if !reached && matches!(o, Outcome::Fail(_) | Outcome::FailMany(_)) {
            return Outcome::Discard("history rejected by the library");
        }
        o
    } else {
        plan_scenario(c, shifting_ok, fin)
    }
}

fn first_content_diff(a: &[u8], b: &[u8]) -> String {
    match (dm::decode(a), dm::decode(b)) {
        (Ok(x), Ok(y)) => {
            let opts = dm::FlatOpts { by_identity: false, include_names: true, include_customs: true };
            let fa = dm::flatten(&x, &dm::Ids::trivial(&x), &opts);
            let fb = dm::flatten(&y, &dm::Ids::trivial(&y), &opts);
            match dm::first_diff(&fa, &fb) {
                Some((k, e, o)) => format!("{}|{}: first {:?}, then {:?}", dm::path_class(&k), k, e, o),
                None => "same-decoded-content|bytes differ, decoded content equal".to_string(),
            }
        }
        (Err(e), _) | (_, Err(e)) => format!("undecodable|{}", mask(&e, 60)),
    }
}

// ------------------------------------------------------------------------------------ C05
/// One scenario in three (a pure function of the scenario's fingerprint, no tape bytes) also
/// adds a custom section and appends a byte to the first existing one before the first
/// encode: owned custom-section data is part of what every further encode must reproduce.
fn touch_customs(b: &mut Built, fp: u64) -> bool {
    if fp % 3 != 0 {
        return false;
    }
    let Built::M(m) = b else { return false };
    run_lib(|| {
        if let Some(v) = m.custom_sections.get_section_data_mut(wirm::ir::id::CustomSectionID(0)) {
            v.push(fp as u8);
        }
        m.custom_sections.add(wirm::ir::types::CustomSection::new("verif.c05", fp.to_le_bytes().to_vec()));
    })
    .is_ok()
}

pub struct Reencode;

impl Driver for Reencode {
    fn id(&self) -> &'static str {
        "C05"
    }
    fn rule(&self) -> &'static str {
        "tape -> scenario: either an edit history of 1-8 operations over the union of the C06/C07/C08 alphabets on a G-edit base (function/global/memory additions, imported additions, deletions, conversions, exports, data, initialiser replacement, injected code), or an instrumentation plan of 1-8 injections of every mode (before/after/alternate/removal/semantic-after/block-entry/-exit/-alternate/function entry/exit) through every API path on a G-static module (one time in four wrapped in a component; one time in three followed by add_func_type of signatures the module already has); one module scenario in three also adds a custom section and appends a byte to the first existing one -> a = encode(); b = encode(); c = encode(): a == b == c; the scenario is then rebuilt from the same tape and pull_side_effects() (which is an encode) followed by encode() must give a as well. A first encode that panics discards the case. Non-trivial: the scenario re-indexes an index space or lowers >=1 special-mode probe. Distinct = hash(scenario)."
    }
    fn tape_len(&self) -> usize {
        3072
    }
    fn cases(&self, tier: Tier) -> u64 {
        match tier {
            Tier::Quick => 32_000,
            Tier::Thorough => 1_500_000,
        }
    }
    fn assumptions(&self) -> Vec<&'static str> {
        vec!["the scenario generators are those of C06-C08 and C15-C22 (shared code)", "byte equality of consecutive encodings; the first differing decoded path is only used to name the signature"]
    }
    fn run(&self, c: &mut Case) -> Outcome {
        // known: re-indexing maps are applied again by every encode
        let steer = c.avoid("second_encode_after_reindex");
        let t0 = c.t.clone();
        let mut first: Option<Vec<u8>> = None;
        let mut nt: Option<u64> = None;
        let mut trigger = false;
        let mut fp0 = 1u64;
        let o = scenario(c, !steer, &mut |c, mut b, info| {
            trigger = info.reindexed;
            fp0 = info.fp;
            if touch_customs(&mut b, info.fp) {
                c.class("custom_section_added_or_modified_before_the_first_encode");
            }
            let a = match run_lib(|| b.encode()) {
                Ok(x) => x,
                Err(_) => return Outcome::Discard("first encode fails loudly"),
            };
            for round in 2..=3 {
                let again = match run_lib(|| b.encode()) {
                    Ok(x) => x,
                    Err(p) => return fail(format!("encode-{}-panics:{}", round, p.signature()), format!("{}:{} {}", p.file, p.line, p.msg)),
                };
                if again != a {
                    let d = first_content_diff(&a, &again);
                    let (cls, detail) = d.split_once('|').unwrap_or(("?", &d));
                    return fail(format!("encode-{}-differs:{}", round, cls), detail.to_string());
                }
            }
            if info.reindexed || info.special >= 1 {
                nt = Some(info.fp);
            }
            first = Some(a);
            Outcome::Pass
        });
        if steer {
            c.class("steered:non_shifting_history_alphabet");
        }
        let wrap = |o: Outcome, trigger: bool| -> Outcome {
            if !trigger {
                return o;
            }
            match o {
                Outcome::Fail(f) => fail("class:second_encode_after_reindex", format!("[{}] {}", f.sig, f.detail)),
                other => other,
            }
        };
        if !matches!(o, Outcome::Pass) {
            return wrap(o, trigger);
        }
        let Some(a) = first else { return o };
        // same scenario again: pull_side_effects() then encode()
        c.t = t0;
        let o2 = scenario(c, !steer, &mut |_c, mut b, _info| {
            touch_customs(&mut b, fp0);
            let out = match b {
                Built::M(m) => {
                    if run_lib(|| {
                        let _ = m.pull_side_effects();
                    })
                    .is_err()
                    {
                        return Outcome::Discard("pull_side_effects fails loudly");
                    }
                    match run_lib(|| m.encode()) {
                        Ok(x) => x,
                        Err(p) => return fail(format!("encode-after-pull-panics:{}", p.signature()), format!("{}:{} {}", p.file, p.line, p.msg)),
                    }
                }
                Built::C(_) => return Outcome::Pass,
            };
            if out != a {
                let d = first_content_diff(&a, &out);
                let (cls, detail) = d.split_once('|').unwrap_or(("?", &d));
                return fail(format!("encode-after-pull-differs:{}", cls), detail.to_string());
            }
            Outcome::Pass
        });
        if !matches!(o2, Outcome::Pass | Outcome::Discard(_)) {
            return wrap(o2, trigger);
        }
        if let Some(fp) = nt {
            c.nontrivial(fp);
        }
        Outcome::Pass
    }
}

// ------------------------------------------------------------------------------------ C04
pub struct Deterministic;

/// cross-process comparison: the first worker process writes (tape fingerprint, output hash)
/// lines, the following ones compare against them
fn digest_ref() -> &'static Option<std::collections::HashMap<u64, u64>> {
    static R: std::sync::OnceLock<Option<std::collections::HashMap<u64, u64>>> = std::sync::OnceLock::new();
    R.get_or_init(|| {
        let p = std::env::var("VERIF_C04_REF").ok()?;
        let txt = std::fs::read_to_string(p).ok()?;
        let mut m = std::collections::HashMap::new();
        for l in txt.lines() {
            let mut it = l.split(' ');
            if let (Some(a), Some(b)) = (it.next(), it.next()) {
                if let (Ok(a), Ok(b)) = (u64::from_str_radix(a, 16), u64::from_str_radix(b, 16)) {
                    m.insert(a, b);
                }
            }
        }
        Some(m)
    })
}
fn digest_out(fp: u64, h: u64) {
    static W: std::sync::OnceLock<Option<std::sync::Mutex<std::fs::File>>> = std::sync::OnceLock::new();
    let w = W.get_or_init(|| {
        let p = std::env::var("VERIF_C04_OUT").ok()?;
        std::fs::OpenOptions::new().create(true).append(true).open(p).ok().map(std::sync::Mutex::new)
    });
    if let Some(m) = w {
        use std::io::Write;
        let _ = writeln!(m.lock().unwrap(), "{:x} {:x}", fp, h);
    }
}

impl Driver for Deterministic {
    fn id(&self) -> &'static str {
        "C04"
    }
    fn rule(&self) -> &'static str {
        "tape -> scenario as in C05 (edit history over the C06/C07/C08 alphabets, or an instrumentation plan of every mode through every path, plus add_func_type of signatures the module already has and, in half of the module plans whose base has struct / array types, 1-4 additions of near-twins of those types (one field's mutability flipped); bases contain duplicate identical types) -> the scenario is built from scratch and encoded R times in the process (R = 3; every build creates fresh hash maps with fresh hasher keys) and the R outputs (bytes, or the panic signature) must be identical; in addition the supervisor runs K worker processes (K = 4 quick, 8 thorough) on the same seed, and every process compares the hash of each case's output with the hash the first process recorded for the same tape. Non-trivial: the scenario contains >=1 edit or injection. Distinct = hash(scenario)."
    }
    fn tape_len(&self) -> usize {
        3072
    }
    fn cases(&self, tier: Tier) -> u64 {
        match tier {
            Tier::Quick => 16_000,
            Tier::Thorough => 400_000,
        }
    }
    fn assumptions(&self) -> Vec<&'static str> {
        vec![
            "std's RandomState gives every HashMap instance its own keys (per-thread random base, incremented per map), so rebuilding in-process already varies iteration orders; separate processes vary the base as well",
            "a cross-process mismatch is reported with the tape of the case; its replay re-executes the in-process repetition in a fresh process",
            "a difference that depends on hasher keys shows in some builds only: every observed difference is real, so the confirmation of a shrunk tape is repeated up to 600 times and a replay rebuilds up to 1024 times, stopping at the first difference",
        ]
    }
    fn confirm_attempts(&self) -> usize {
        600
    }
    fn run(&self, c: &mut Case) -> Outcome {
        let t0 = c.t.clone();
        let tape_fp = {
            // fingerprint of the whole tape (the case identity across processes)
            let mut t = t0.clone();
            let n = t.remaining();
            fnv(&t.bytes(n))
        };
        let mut outs: Vec<Result<Vec<u8>, String>> = vec![];
        let mut info_fp = None;
        // a replay (fresh process, strict) rebuilds until a difference shows, up to 1024 times:
        // a de-duplication that depends on hasher keys may differ in one build of a hundred
        let reps = if c.mode == Mode::Replay { 1024 } else { 3 };
        // decided by the tape fingerprint, not by a tape read: the scenario itself is unchanged
        let side_effects = tape_fp % 4 == 0;
        if side_effects {
            c.class("output:side_effect_report");
        }
        for _ in 0..reps {
            c.t = t0.clone();
            let mut got: Option<Result<Vec<u8>, String>> = None;
            let o = scenario(c, true, &mut |_c, mut b, info| {
                if info.edits + info.injections >= 1 {
                    info_fp = Some(info.fp);
                }
                got = Some(match (&mut b, side_effects) {
                    // one scenario in four: the side-effect report instead of the bytes
                    (Built::M(m), true) => run_lib(|| render_side_effects(&m.pull_side_effects())).map_err(|p| p.signature()),
                    _ => run_lib(|| b.encode()).map_err(|p| p.signature()),
                });
                Outcome::Pass
            });
            match o {
                Outcome::Pass => {}
                Outcome::Discard(w) => return Outcome::Discard(w),
                // failures of the history itself belong to C06-C11
                _ => return Outcome::Discard("scenario rejected by the library"),
            }
            match got {
                Some(g) => outs.push(g),
                None => return Outcome::Discard("scenario produced no module"),
            }
            if outs.len() > 3 && outs.last() != outs.first() {
                break;
            }
        }
        for k in 1..outs.len() {
            if outs[k] != outs[0] {
                return match (&outs[0], &outs[k]) {
                    (Ok(a), Ok(b)) => {
                        let d = first_content_diff(a, b);
                        let (cls, detail) = d.split_once('|').unwrap_or(("?", &d));
                        fail(format!("output-differs-between-runs:{}", cls), format!("build 1 vs build {}: {}", k + 1, detail))
                    }
                    (a, b) => fail("panic-differs-between-runs", format!("build 1: {:?}; build {}: {:?}", a.as_ref().map(|v| v.len()), k + 1, b.as_ref().map(|v| v.len()))),
                };
            }
        }
        let h = match &outs[0] {
            Ok(b) => fnv(b),
            Err(s) => fnv(s.as_bytes()) ^ 0x5555,
        };
        if c.mode == Mode::Main || c.mode == Mode::Probe {
            digest_out(tape_fp, h);
            if let Some(r) = digest_ref() {
                if let Some(h0) = r.get(&tape_fp) {
                    c.class("compared_with_first_process");
                    if *h0 != h {
                        return fail("output-differs-between-processes", format!("output hash {:x} in this process, {:x} in the first process", h, h0));
                    }
                }
            }
        }
        if let Some(fp) = info_fp {
            c.nontrivial(fp);
        }
        Outcome::Pass
    }
}

/// Canonical text of a side-effect report: record kinds in a fixed order, the records of one
/// kind in the order the library returns them (a vector: its order is part of the output).
fn render_side_effects(se: &std::collections::HashMap<wirm::ir::module::side_effects::InjectType, Vec<wirm::ir::module::side_effects::Injection>>) -> Vec<u8> {
    use wirm::ir::module::side_effects::Injection as I;
    let mut kinds: Vec<_> = se.keys().copied().collect();
    kinds.sort();
    let mut out = String::new();
    for k in kinds {
        out.push_str(&format!("[{:?}]\n", k));
        for inj in &se[&k] {
            let line = match inj {
                I::Import { module, name, type_ref, tag } => format!("import {} {} {:?} {:?}", module, name, type_ref, tag.data()),
                I::Export { name, kind, index, tag } => format!("export {} {:?} {} {:?}", name, kind, index, tag.data()),
                I::Type { ty, tag } => format!("type {:?} {:?}", ty, tag.data()),
                I::Memory { id, initial, maximum, tag } => format!("memory {} {} {:?} {:?}", id, initial, maximum, tag.data()),
                I::PassiveData { data, tag } => format!("data passive {:?} {:?}", data, tag.data()),
                I::ActiveData { memory_index, offset_expr, data, tag } => format!("data active {} {:?} {:?} {:?}", memory_index, offset_expr, data, tag.data()),
                I::Global { id, ty, shared, mutable, init_expr, tag } => format!("global {} {:?} {} {} {:?} {:?}", id, ty, shared, mutable, init_expr, tag.data()),
                I::Func { id, fname, sig, locals, body, tag } => format!("func {} {:?} {:?} {:?} {:?} {:?}", id, fname, sig, locals, body.iter().map(|i| format!("{:?}", i.op)).collect::<Vec<_>>(), tag.data()),
                I::Local { target_fid, ty, tag } => format!("local {} {:?} {:?}", target_fid, ty, tag.data()),
                I::Table { tag } => format!("table {:?}", tag.data()),
                I::Element { tag } => format!("element {:?}", tag.data()),
                I::FuncProbe { target_fid, mode, body, tag } => format!("funcprobe {} {:?} {:?} {:?}", target_fid, mode, body, tag.data()),
                I::FuncLocProbe { target_fid, target_opcode_idx, mode, body, tag } => format!("locprobe {} {} {:?} {:?} {:?}", target_fid, target_opcode_idx, mode, body, tag.data()),
            };
            out.push_str(&line);
            out.push('\n');
        }
    }
    out.into_bytes()
}
