//! Property instances built on the edit-history engine.
use super::edit::*;
use crate::dec::module as dm;

fn has_sites(w: &World, kind: char) -> bool {
    let (f, g, m) = w.refs();
    match kind {
        'f' => !f.is_empty(),
        'g' => !g.is_empty(),
        _ => !m.is_empty(),
    }
}

fn nt_c06(ap: &Applied, w: &World, _i: &dm::Dec, _o: &dm::Dec) -> bool {
    ap.shifted_f && has_sites(w, 'f')
}
fn nt_c07(ap: &Applied, w: &World, _i: &dm::Dec, _o: &dm::Dec) -> bool {
    ap.shifted_g && has_sites(w, 'g')
}
fn nt_c08(ap: &Applied, w: &World, _i: &dm::Dec, _o: &dm::Dec) -> bool {
    ap.shifted_m && has_sites(w, 'm')
}
fn nt_c09(ap: &Applied, w: &World, _i: &dm::Dec, _o: &dm::Dec) -> bool {
    ap.deletions >= 1 && (ap.shifted_f || ap.shifted_g || ap.shifted_m) && (has_sites(w, 'f') || has_sites(w, 'g') || has_sites(w, 'm'))
}
fn nt_c10(ap: &Applied, w: &World, i: &dm::Dec, _o: &dm::Dec) -> bool {
    ap.kinds.contains(&"import_to_local") && (i.imports.len() > i.n_func_imports || i.n_func_imports >= 2) && has_sites(w, 'f')
}
fn nt_c11(ap: &Applied, _w: &World, _i: &dm::Dec, _o: &dm::Dec) -> bool {
    let n = ap.conv_order.len();
    let non_ascending = ap.conv_order.windows(2).any(|p| p[1] < p[0]);
    (n >= 2 && non_ascending) || (n >= 1 && ap.mixed_conv_import) || n >= 2
}

pub fn c06() -> EditDriver {
    EditDriver {
        pid: "C06",
        rule_text: "tape -> G-edit base (identity markers; call/return_call/ref.func sites in code, global/element/table initialisers, exports, element segments, start) -> history of 1-8 ops from {add local func with body referencing existing IDs, add import func, delete unreferenced func, local->import, import->local, add func export, inject code using IDs via ModuleIterator/FunctionModifier} -> encode -> validate -> every site of the decoded output must carry the identity the model assigns (comparison of identity-keyed flattenings). Non-trivial: the history shifts the function index space (import added while locals exist, deletion before a survivor, conversion) and at least one function reference site exists. Distinct = hash(base, history).",
        alphabet: Alphabet { func_add: true, func_import_add: true, func_delete: true, l2i: true, i2l: true, func_export: true, inject: true, ..Default::default() },
        max_ops: 8,
        quick: 60_000,
        thorough: 3_000_000,
        compare_names: false,
        only_names: false,
        nontrivial_rule: nt_c06,
    }
}
pub fn c07() -> EditDriver {
    EditDriver {
        pid: "C07",
        rule_text: "tape -> G-edit base (global.get/set sites in code, global exports, global.get in global/data/element/table initialisers) -> history of 1-8 ops from {add global (const / global.get / ref.func initialiser) through the module and through a ModuleIterator, add imported global, delete unreferenced global, replace initialiser, add local func / inject code with global.get/set on IDs} -> encode -> validate -> identity comparison of every global reference site; returned GlobalIDs must be fresh. Non-trivial: the global index space shifts (imported global added while local globals exist, or deletion before a survivor) and a global reference site exists.",
        alphabet: Alphabet { func_add: true, inject: true, global_add: true, global_import_add: true, global_iter_add: true, global_delete: true, global_modinit: true, ..Default::default() },
        max_ops: 8,
        quick: 60_000,
        thorough: 3_000_000,
        compare_names: false,
        only_names: false,
        nontrivial_rule: nt_c07,
    }
}
pub fn c08() -> EditDriver {
    EditDriver {
        pid: "C08",
        rule_text: "tape -> G-edit multi-memory base (1-4 memories, imported/local, 32/64-bit, shared; code with plain, atomic, SIMD and bulk memory instructions; active data; memory exports) -> history of 1-8 ops from {add local memory, add imported memory, delete unreferenced memory, add active data on an ID, add memory export, add local func / inject code with one instruction of each memory family on an ID} -> encode -> validate -> identity comparison of every memory immediate (all wasmparser operator fields memory/mem/dst_mem/src_mem), export and data segment. Non-trivial: the memory index space shifts and a memory reference site exists.",
        alphabet: Alphabet { func_add: true, inject: true, mem_add: true, mem_import_add: true, mem_delete: true, data_add: true, mem_export: true, ..Default::default() },
        max_ops: 8,
        quick: 60_000,
        thorough: 3_000_000,
        compare_names: false,
        only_names: false,
        nontrivial_rule: nt_c08,
    }
}
pub fn c09() -> EditDriver {
    EditDriver {
        pid: "C09",
        rule_text: "tape -> G-edit base -> history of deletions of functions, globals, memories (imported or local, half of them still referenced) and exports, interleaved with additions -> if a live reference to a deleted entity remains, encode must panic (loud) and must not return bytes (dropping the start section with its deleted function is accepted); otherwise the output validates and the identity-keyed content equals the model: exactly the deleted entities are gone. Non-trivial: >=1 deletion that shifts an index space with reference sites present, or a dangling reference.",
        alphabet: Alphabet { func_add: true, func_import_add: true, func_delete: true, global_add: true, global_delete: true, mem_add: true, mem_delete: true, export_delete: true, dangling: true, ..Default::default() },
        max_ops: 6,
        quick: 60_000,
        thorough: 3_000_000,
        compare_names: false,
        only_names: false,
        nontrivial_rule: nt_c09,
    }
}
pub fn c10() -> EditDriver {
    EditDriver {
        pid: "C10",
        rule_text: "tape -> G-edit base with mixed function / global / memory / table / tag imports in random order -> 1-6 ops, mostly FunctionBuilder::replace_import_in_module on a function import (body = marker + statements, same signature), mixed with other function ops -> the import is gone, every former use designates the built body, all other identities are preserved, output validates. Non-trivial: a replacement happened on a base with a non-function import or >=2 function imports, and function reference sites exist.",
        alphabet: Alphabet { i2l: true, func_add: true, func_export: true, inject: true, func_import_add: true, l2i: true, func_delete: true, ..Default::default() },
        max_ops: 6,
        quick: 60_000,
        thorough: 3_000_000,
        compare_names: false,
        only_names: false,
        nontrivial_rule: nt_c10,
    }
}
pub fn c11() -> EditDriver {
    EditDriver {
        pid: "C11",
        rule_text: "tape -> G-edit base -> 1-6 ops from {convert local function to import (module, name, own type), add import func, add func export} in any order -> body gone, every former use designates an import with exactly the given module/name/type, everything else keeps identity, output validates. Non-trivial: >=2 conversions, or a conversion mixed with an import addition.",
        alphabet: Alphabet { l2i: true, func_import_add: true, func_export: true, ..Default::default() },
        max_ops: 6,
        quick: 60_000,
        thorough: 3_000_000,
        compare_names: false,
        only_names: false,
        nontrivial_rule: nt_c11,
    }
}

fn nt_c29(ap: &Applied, w: &World, _i: &dm::Dec, _o: &dm::Dec) -> bool {
    let n = &w.model.names;
    (ap.shifted_f && (!n.funcs.is_empty() || !n.locals.is_empty())) || (ap.shifted_g && !n.globals.is_empty())
}
pub fn c29() -> EditDriver {
    EditDriver {
        pid: "C29",
        rule_text: "tape -> G-edit base with a (mostly complete) name section -> history of index-shifting ops {add import func, delete func, local->import, add imported global, delete global, add local func (optionally named through the builder)} and naming calls {Module::set_fn_name, imports.set_name, imports.set_fn_name} -> encode -> the function, local and global names decoded from the output, keyed by the identity of the entity they are attached to, must equal the model's (names follow their entity; names of deleted entities disappear; names of converted functions are not constrained). Non-trivial: a function or global index shift happened and the shifted space has names.",
        alphabet: Alphabet { func_add: true, func_import_add: true, func_delete: true, l2i: true, global_import_add: true, global_delete: true, global_add: true, naming: true, ..Default::default() },
        max_ops: 6,
        quick: 60_000,
        thorough: 3_000_000,
        compare_names: true,
        only_names: true,
        nontrivial_rule: nt_c29,
    }
}

fn nt_c30(ap: &Applied, _w: &World, _i: &dm::Dec, _o: &dm::Dec) -> bool {
    let mut kinds: Vec<&str> = ap.kinds.clone();
    kinds.sort();
    kinds.dedup();
    kinds.len() >= 2 && ap.nonint_consts >= 1
}
pub fn c30() -> EditDriver {
    EditDriver {
        pid: "C30",
        rule_text: "tape -> G-edit base -> 1-8 additions from {add_global with a constant of any value type (boundary integers, float bit patterns incl. NaN payloads, v128, ref.null, global.get, ref.func), mod_global_init_expr, add_data active/passive with random bytes and offsets, add_local_memory / add_import_memory with random limits, memory64 and shared flags, exports.add_export_func / add_export_mem on returned IDs, interleaved with add_import_func / add local func so that the function index space shifts under ref.func initialisers and exports} -> encode -> validate -> the entity reached through the returned ID (by identity) has exactly the requested type, limits, bytes and initialiser in the decoded output, and everything else is unchanged. Non-trivial: >=2 kinds of additions and >=1 non-integer constant. Distinct = hash(base, history).",
        alphabet: Alphabet { global_add: true, global_import_add: true, global_modinit: true, data_add: true, mem_add: true, mem_import_add: true, func_export: true, mem_export: true, func_add: true, func_import_add: true, rich: true, ..Default::default() },
        max_ops: 8,
        quick: 60_000,
        thorough: 3_000_000,
        compare_names: false,
        only_names: false,
        nontrivial_rule: nt_c30,
    }
}
