//! C27: component round trip preserves structure at any nesting depth.
use super::common::*;
use crate::capture::{mask, run_lib};
use crate::dec::component as dc;
use crate::engine::*;
use crate::gen::component::GenComp;
use crate::gen::{gen_module, Kind, Profile};
use crate::tape::fnv;

pub struct ComponentRoundTrip;

impl Driver for ComponentRoundTrip {
    fn id(&self) -> &'static str {
        "C27"
    }
    fn rule(&self) -> &'static str {
        "tape -> component: (a) generated constructively (index-space tracking; every step its own section, so sections of one kind recur interleaved with others: custom sections, generated core modules and an import-free helper module, defined types of every shape and function types, imports of functions / types / resources, exports, nested components to depth 4 that alias types of their parents, component instantiation, instance-export aliases, core instantiation, core-export aliases, canon lift / lower) with components of the repository's own test inputs embedded as nested components at random positions; or (b) one of the 134 valid components extracted from /repo/tests (*.wat, *.wast directives), as is or wrapped 1-3 levels deep -> validated with wasmparser (component model) -> Component::parse -> encode -> the output validates and its decoded tree equals the input's: per nesting level the same items in the same order (section framing ignored), custom sections with name and bytes, core modules with the same decoded content, nested components recursively. Non-trivial: nesting depth >= 2 or a section kind that recurs non-adjacently. Distinct = hash of the input."
    }
    fn tape_len(&self) -> usize {
        4096
    }
    fn cases(&self, tier: Tier) -> u64 {
        match tier {
            Tier::Quick => 16_000,
            Tier::Thorough => 600_000,
        }
    }
    fn assumptions(&self) -> Vec<&'static str> {
        vec![
            "wasmparser 0.235 validator (all features) decides validity of input and output; wasmparser's Debug rendering of component items (byte offsets removed) is the canonical form of an item",
            "core modules inside components are compared like C02 compares modules",
        ]
    }
    fn run(&self, c: &mut Case) -> Outcome {
        let corpus = crate::corpus::components();
        let src = c.t.below(4);
        let (bytes, origin): (Vec<u8>, &'static str) = match src {
            0 if !corpus.is_empty() => (c.t.pick(corpus).1.clone(), "corpus"),
            1 if !corpus.is_empty() => {
                let b = &c.t.pick(corpus).1;
                let d = c.t.range(1, 3);
                (super::c03::wrap_component(b, true, d), "corpus_wrapped")
            }
            _ => {
                let mut classes: Vec<&'static str> = vec![];
                let mut hz_exn = c.avoid("exnref_nullable");
                let _ = &mut hz_exn;
                let avoid_exn = c.avoid("exnref_nullable");
                let avoid_names = c.avoid("name_section_before_code");
                let mut mg = |t: &mut crate::tape::Tape| -> Option<Vec<u8>> {
                    let mut profile = Profile::from_tape(t);
                    profile.gc = profile.gc && t.bool();
                    let mut cfg = crate::gen::GenCfg::new(Kind::Static, profile);
                    cfg.avoid_exnref = avoid_exn;
                    cfg.avoid_early_names = avoid_names;
                    cfg.max_funcs = 2;
                    cfg.max_stmts = 3;
                    let m = gen_module(t, &cfg);
                    let b = m.encode();
                    crate::dec::module::validate(&b).ok().map(|_| b)
                };
                let max_depth = 4;
                let mut g = GenComp { module_gen: &mut mg, corpus: corpus.as_slice(), max_depth, classes: vec![] };
                let b = g.generate(&mut c.t);
                classes.extend(g.classes.iter());
                for k in classes {
                    c.class(&format!("gen:{}", k));
                }
                (b, "generated")
            }
        };
        if let Err(e) = dc::validate(&bytes) {
            c.gen_invalid();
            c.note(|| format!("GENERATOR BUG ({}): {}\n{}", origin, e, dc::print_wat(&bytes)));
            return Outcome::Discard("generator produced an invalid component");
        }
        let din = match dc::decode(&bytes) {
            Ok(d) => d,
            Err(e) => return fail("harness:decode-component", e),
        };
        let st = dc::stats(&din);
        c.class(&format!("origin:{}", origin));
        c.class(&format!("depth:{}", st.depth.min(5)));
        if st.interleaved {
            c.class("interleaved_sections");
        }
        for k in &st.kinds {
            c.class(&format!("kind:{}", k));
        }
        c.note(|| format!("INPUT ({}, depth {}, {} modules, {} nested components)\n{}", origin, st.depth, st.modules, st.components, dc::print_wat(&bytes)));
        let wrap = |o: Outcome| -> Outcome { o };
        let mut comp = match run_lib(|| wirm::Component::parse(&bytes, true)) {
            Ok(Ok(x)) => x,
            Ok(Err(e)) => return wrap(fail(format!("parse-err:{}", mask(&format!("{:?}", e), 50)), format!("Component::parse returned Err on a valid component: {:?}", e))),
            Err(p) => return wrap(panic_fail("parse", &p)),
        };
        let out = match run_lib(|| comp.encode()) {
            Ok(b) => b,
            Err(p) => return wrap(panic_fail("encode", &p)),
        };
        if let Err(e) = dc::validate(&out) {
            c.note(|| format!("OUTPUT\n{}", dc::print_wat(&out)));
            return wrap(fail(format!("invalid-output:{}", mask(e.split(" (at offset").next().unwrap_or(&e), 50)), e));
        }
        let dout = match dc::decode(&out) {
            Ok(d) => d,
            Err(e) => return wrap(fail("undecodable-output", e)),
        };
        if let Some((path, class, detail)) = dc::first_diff(&din, &dout, "component") {
            c.note(|| format!("OUTPUT\n{}", dc::print_wat(&out)));
            return wrap(fail(format!("differs:{}", class), format!("{}: {}", path, detail)));
        }
        if st.depth >= 2 || st.interleaved {
            c.nontrivial(fnv(&bytes));
        }
        Outcome::Pass
    }
}
