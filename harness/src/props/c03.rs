//! C03: parsing any byte string returns Ok or Err, never panics or aborts.
use crate::capture::run_lib;
use crate::engine::*;
use crate::gen::{gen_module, GenCfg, Kind, Profile};
use crate::tape::{fnv, Tape};
use wasm_encoder as we;

pub struct ParseNoPanic;

/// (id, start of section header, start of payload, end) for every top-level section
pub fn sections(b: &[u8]) -> Vec<(u8, usize, usize, usize)> {
    let mut v = vec![];
    let mut i = 8;
    while i < b.len() {
        let id = b[i];
        let mut j = i + 1;
        let mut size: u64 = 0;
        let mut shift = 0;
        loop {
            if j >= b.len() || shift > 35 {
                return v;
            }
            let byte = b[j];
            size |= ((byte & 0x7f) as u64) << shift;
            j += 1;
            shift += 7;
            if byte & 0x80 == 0 {
                break;
            }
        }
        let end = j.saturating_add(size as usize);
        if end > b.len() {
            return v;
        }
        v.push((id, i, j, end));
        i = end;
    }
    v
}

fn leb(mut v: u64, out: &mut Vec<u8>) {
    loop {
        let mut b = (v & 0x7f) as u8;
        v >>= 7;
        if v != 0 {
            b |= 0x80;
        }
        out.push(b);
        if v == 0 {
            break;
        }
    }
}

pub fn wrap_component(inner: &[u8], inner_is_component: bool, depth: usize) -> Vec<u8> {
    let mut cur = inner.to_vec();
    let mut is_comp = inner_is_component;
    for _ in 0..depth {
        let mut c = we::Component::new();
        if is_comp {
            c.section(&we::RawSection { id: 4, data: &cur });
        } else {
            c.section(&we::RawSection { id: 1, data: &cur });
        }
        cur = c.finish();
        is_comp = true;
    }
    cur
}

/// Deeply nested component sections: `depth` headers, each a component section containing the next.
pub fn deep_nest(depth: usize, module_inside: bool) -> Vec<u8> {
    let comp_header = [0x00, 0x61, 0x73, 0x6d, 0x0d, 0x00, 0x01, 0x00];
    let mod_header = [0x00, 0x61, 0x73, 0x6d, 0x01, 0x00, 0x00, 0x00];
    // sizes from the inside out, bytes from the outside in (linear time)
    let mut sizes = vec![8usize];
    for k in 0..depth {
        let mut l = vec![];
        leb(sizes[k] as u64, &mut l);
        sizes.push(8 + 1 + l.len() + sizes[k]);
    }
    let mut out = Vec::with_capacity(sizes[depth]);
    for k in (1..=depth).rev() {
        out.extend_from_slice(&comp_header);
        out.push(if k == 1 && module_inside { 1 } else { 4 });
        leb(sizes[k - 1] as u64, &mut out);
    }
    out.extend_from_slice(if module_inside { &mod_header } else { &comp_header });
    out
}

pub fn mutate(t: &mut Tape, base: &[u8], other: &[u8], classes: &mut Vec<&'static str>) -> Vec<u8> {
    let mut b = base.to_vec();
    let n = t.range(1, 3);
    for _ in 0..n {
        let secs = sections(&b);
        match t.below(16) {
            0 => {
                classes.push("bitflip");
                if !b.is_empty() {
                    let i = t.below(b.len());
                    b[i] ^= 1 << t.below(8);
                }
            }
            1 => {
                classes.push("byteset");
                if !b.is_empty() {
                    let i = t.below(b.len());
                    b[i] = *t.pick(&[0u8, 1, 0x7f, 0x80, 0xff, 0x0b, 0x41, 0x23, 0xd2, 0xfc, 0xfd, 0xfe, 0x6a]);
                }
            }
            2 => {
                classes.push("truncate");
                if !b.is_empty() {
                    let at = if !secs.is_empty() && t.bool() {
                        let s = secs[t.below(secs.len())];
                        *t.pick(&[s.1, s.2, s.3, s.2 + 1])
                    } else {
                        t.below(b.len())
                    };
                    b.truncate(at.min(b.len()));
                }
            }
            3 => {
                classes.push("insert");
                let at = t.below(b.len() + 1);
                let k = t.range(1, 4);
                let ins = t.bytes(k);
                b.splice(at..at, ins);
            }
            4 => {
                classes.push("section_dup");
                if !secs.is_empty() {
                    let s = secs[t.below(secs.len())];
                    let chunk = b[s.1..s.3].to_vec();
                    let d = secs[t.below(secs.len())];
                    let at = if t.bool() { d.1 } else { d.3 };
                    b.splice(at..at, chunk);
                }
            }
            5 => {
                classes.push("section_swap");
                if secs.len() >= 2 {
                    let i = t.below(secs.len() - 1);
                    let (a, c) = (secs[i], secs[i + 1]);
                    let mut nb = b[..a.1].to_vec();
                    nb.extend_from_slice(&b[c.1..c.3]);
                    nb.extend_from_slice(&b[a.1..a.3]);
                    nb.extend_from_slice(&b[c.3..]);
                    b = nb;
                }
            }
            6 => {
                classes.push("section_splice");
                let os = sections(other);
                if !os.is_empty() {
                    let s = os[t.below(os.len())];
                    let chunk = other[s.1..s.3].to_vec();
                    let at = if secs.is_empty() { b.len().min(8) } else { secs[t.below(secs.len())].1 };
                    b.splice(at..at, chunk);
                }
            }
            7 => {
                classes.push("count_corrupt");
                // first byte of a section payload is usually an item count
                if !secs.is_empty() {
                    let s = secs[t.below(secs.len())];
                    if s.2 < b.len() {
                        b[s.2] = *t.pick(&[0u8, 1, 2, 0x7f, 0xff, 0x80]);
                    }
                }
            }
            8 => {
                classes.push("size_corrupt");
                if !secs.is_empty() {
                    let s = secs[t.below(secs.len())];
                    if s.1 + 1 < b.len() {
                        b[s.1 + 1] = b[s.1 + 1].wrapping_add(*t.pick(&[1u8, 0xff, 2, 0x80]));
                    }
                }
            }
            9 => {
                classes.push("section_id");
                if !secs.is_empty() {
                    let s = secs[t.below(secs.len())];
                    b[s.1] = t.below(16) as u8;
                }
            }
            10 => {
                classes.push("name_before_code");
                // move the last custom section in front of the code section
                if let (Some(code), Some(cu)) = (secs.iter().find(|s| s.0 == 10), secs.iter().rev().find(|s| s.0 == 0)) {
                    if cu.1 > code.1 {
                        let chunk = b[cu.1..cu.3].to_vec();
                        b.drain(cu.1..cu.3);
                        b.splice(code.1..code.1, chunk);
                    }
                }
            }
            11 => {
                classes.push("empty_known_custom");
                let name = *t.pick(&["producers", "name", "target_features", "dylink.0", "linking", "component-name", "core"]);
                let k = t.below(4);
                let mut payload = vec![];
                leb(name.len() as u64, &mut payload);
                payload.extend_from_slice(name.as_bytes());
                payload.extend(t.bytes(k));
                let mut sec = vec![0u8];
                leb(payload.len() as u64, &mut sec);
                sec.extend(payload);
                let at = if secs.is_empty() { b.len().min(8) } else { secs[t.below(secs.len())].1 };
                b.splice(at..at, sec);
            }
            12 => {
                classes.push("opcode_subst");
                // replace a const-ish opcode byte inside global/element/data/code sections
                let c: Vec<_> = secs.iter().filter(|s| matches!(s.0, 6 | 9 | 10 | 11 | 4)).collect();
                if !c.is_empty() {
                    let s = c[t.below(c.len())];
                    if s.3 > s.2 {
                        let i = s.2 + t.below(s.3 - s.2);
                        b[i] = *t.pick(&[0x6au8, 0x6b, 0x6c, 0x7c, 0x7d, 0x7e, 0x23, 0x41, 0x42, 0xd0, 0xd2, 0xfb, 0x20, 0x10, 0x00, 0x0b, 0x02, 0x1a]);
                    }
                }
            }
            13 => {
                classes.push("header_swap");
                if b.len() >= 8 {
                    if b[4] == 1 {
                        b[4] = 0x0d;
                        b[6] = 1;
                    } else {
                        b[4] = 1;
                        b[6] = 0;
                    }
                }
            }
            14 => {
                classes.push("index_bump");
                // bump a byte in the function or import or export section
                let c: Vec<_> = secs.iter().filter(|s| matches!(s.0, 2 | 3 | 7 | 8 | 13)).collect();
                if !c.is_empty() {
                    let s = c[t.below(c.len())];
                    if s.3 > s.2 + 1 {
                        let i = s.2 + 1 + t.below(s.3 - s.2 - 1);
                        b[i] = b[i].wrapping_add(*t.pick(&[1u8, 2, 5, 0x40, 0x7f]));
                    }
                }
            }
            _ => {
                classes.push("wrap_component");
                let d = t.range(1, 3);
                let is_comp = b.len() >= 8 && b[4] == 0x0d;
                b = wrap_component(&b, is_comp, d);
            }
        }
    }
    b
}

fn reached_sections(b: &[u8]) -> bool {
    let mut n = 0;
    for p in wasmparser::Parser::new(0).parse_all(b) {
        match p {
            Ok(_) => {
                n += 1;
                if n >= 2 {
                    return true;
                }
            }
            Err(_) => return false,
        }
    }
    false
}

impl Driver for ParseNoPanic {
    fn id(&self) -> &'static str {
        "C03"
    }
    fn rule(&self) -> &'static str {
        "tape -> valid generated module (all profiles) or small component -> 1-3 structured mutations (bit/byte flips, truncation at section boundaries, count/size/id corruption, section duplication/swap/splice, name section before code, known-name custom sections with garbage, opcode substitution in const expressions and bodies, header swap module<->component, wrapping, deep nesting) -> Module::parse(false/true) and Component::parse(false/true) must each return Ok or Err. Non-trivial: wasmparser yields the header and at least one further payload from the mutant. Distinct = hash of the mutant."
    }
    fn tape_len(&self) -> usize {
        3072
    }
    fn cases(&self, tier: Tier) -> u64 {
        match tier {
            Tier::Quick => 24_000,
            Tier::Thorough => 3_000_000,
        }
    }
    fn assumptions(&self) -> Vec<&'static str> {
        vec!["aborts (stack overflow) are observed by the supervisor process, panics by catch_unwind + hook"]
    }
    fn run(&self, c: &mut Case) -> Outcome {
        // a tape that starts with "RAW\0" carries the input verbatim (artifacts of the
        // byte-level libFuzzer target `parse_any` are replayed this way)
        if c.t.remaining() >= 4 {
            let mut probe = c.t.clone();
            if probe.bytes(4) == b"RAW\0" {
                let _ = c.t.bytes(4);
                let n = c.t.remaining();
                let input = c.t.bytes(n);
                c.class("mut:raw_input_from_fuzzer");
                c.note(|| format!("raw input ({} bytes): {}", input.len(), crate::tape::hex(&input[..input.len().min(400)])));
                for (what, mm) in [("module", false), ("module", true), ("component", false), ("component", true)] {
                    let r = if what == "module" { run_lib(|| wirm::Module::parse(&input, mm).is_ok()) } else { run_lib(|| wirm::Component::parse(&input, mm).is_ok()) };
                    if let Err(p) = r {
                        return fail(p.signature(), format!("{}::parse(_, {}) panicked at {}:{}: {}", what, mm, p.file, p.line, p.msg));
                    }
                }
                return Outcome::Pass;
            }
        }
        let profile = Profile::from_tape(&mut c.t);
        let mut cfg = GenCfg::new(Kind::Static, profile);
        cfg.max_funcs = 3;
        let base = gen_module(&mut c.t, &cfg).encode();
        let mut cfg2 = GenCfg::new(Kind::Static, Profile::mvp());
        cfg2.max_funcs = 2;
        let other = gen_module(&mut c.t, &cfg2).encode();
        let mut classes = vec![];
        let mutant = match c.t.below(12) {
            0 => {
                classes.push("unmutated");
                base.clone()
            }
            1 => {
                // deep nesting; worker threads have an 8 MB stack like a default main thread
                let depth = if c.avoid("deep_nesting_overflow") {
                    c.steered("deep_nesting_overflow");
                    c.t.range(1, 300)
                } else {
                    *c.t.pick(&[10usize, 100, 500, 3000])
                };
                classes.push("deep_nest");
                deep_nest(depth, c.t.bool())
            }
            2 => {
                classes.push("component_of_mutant");
                let inner = mutate(&mut c.t, &base, &other, &mut classes);
                wrap_component(&inner, false, c.t.range(1, 3))
            }
            3 => {
                classes.push("raw_bytes");
                let n = c.t.below(40);
                let mut v = if c.t.bool() { vec![0x00, 0x61, 0x73, 0x6d, 0x01, 0, 0, 0] } else { vec![0x00, 0x61, 0x73, 0x6d, 0x0d, 0, 1, 0] };
                v.extend(c.t.bytes(n));
                v
            }
            _ => mutate(&mut c.t, &base, &other, &mut classes),
        };
        for k in &classes {
            c.class(&format!("mut:{}", k));
        }
        c.note(|| format!("mutations {:?}; mutant ({} bytes): {}", classes, mutant.len(), crate::tape::hex(&mutant[..mutant.len().min(400)])));
        if std::env::var("VERIF_DEBUG").is_ok() {
            eprintln!("classes {:?} len {} head {}", classes, mutant.len(), crate::tape::hex(&mutant[..mutant.len().min(120)]));
        }
        crate::capture::crumb(&classes.join("+"));
        let mut outcomes = String::new();
        for (what, mm) in [("module", false), ("module", true), ("component", false), ("component", true)] {
            let r = if what == "module" {
                run_lib(|| wirm::Module::parse(&mutant, mm).map(|_| ()).map_err(|_| ()))
            } else {
                run_lib(|| wirm::Component::parse(&mutant, mm).map(|_| ()).map_err(|_| ()))
            };
            match r {
                Ok(Ok(())) => outcomes.push('o'),
                Ok(Err(())) => outcomes.push('e'),
                Err(p) => {
                    return fail(
                        p.signature(),
                        format!("{}::parse(_, {}) panicked at {}:{}: {}", what, mm, p.file, p.line, p.msg),
                    );
                }
            }
        }
        c.class(&format!("outcome:{}", outcomes));
        if reached_sections(&mutant) {
            c.nontrivial(fnv(&mutant));
        }
        Outcome::Pass
    }
}
