//! C24: every instruction helper of the injection API appends exactly the instruction its
//! name denotes, immediates preserved bit for bit.
//!
//! The expectation comes from `c24_table` (helper name -> `wasm_encoder::Instruction`, written
//! from the names and the spec mnemonics).  One case = one helper x one set of immediates x
//! one path (FunctionBuilder -> finish_module, or ModuleIterator before-injection).  The bytes
//! of the function body in the library's output must equal the bytes wasm-encoder produces for
//! the expected instruction sequence.
use super::c24_table::{helpers, Helper, Imm};
use super::common::*;
use crate::capture::run_lib;
use crate::engine::*;
use crate::tape::{fnv, hex, Tape};
use wirm::iterator::iterator_trait::IteratingInstrumenter;

pub struct OpcodeHelpers;

const N_FUNCS: u32 = 3;
const N_GLOBALS: u32 = 3;
const N_MEMS: u32 = 3;

fn base_module() -> &'static [u8] {
    static BASE: std::sync::OnceLock<Vec<u8>> = std::sync::OnceLock::new();
    BASE.get_or_init(base_module_bytes)
}

fn base_module_bytes() -> Vec<u8> {
    wat::parse_str(
        r#"(module
            (type (func))
            (import "e" "f0" (func (type 0)))
            (memory 1) (memory 1) (memory 1)
            (global (mut i32) (i32.const 0))
            (global (mut i32) (i32.const 1))
            (global (mut i32) (i32.const 2))
            (func (type 0) nop)
            (func (type 0) nop nop))"#,
    )
    .expect("base module")
}

fn u32v(t: &mut Tape) -> u32 {
    match t.below(5) {
        0 => t.below(4) as u32,
        1 => *t.pick(&[0u32, 1, 0x7f, 0x80, 0x3fff, 0x4000, 0x7fff_ffff, 0x8000_0000, 0xffff_ffff, 0xffff_fffe]),
        2 => t.i32v() as u32,
        3 => t.u16() as u32,
        _ => t.u32(),
    }
}
fn u64v(t: &mut Tape) -> u64 {
    match t.below(4) {
        0 => t.below(4) as u64,
        1 => *t.pick(&[0u64, 1, 0x7fff_ffff_ffff_ffff, 0x8000_0000_0000_0000, 0xffff_ffff_ffff_ffff, 0xffff_ffff, 0x1_0000_0000]),
        2 => t.i64v() as u64,
        _ => t.u64(),
    }
}

fn gen_imm(t: &mut Tape, name: &str) -> Imm {
    let mut i = Imm::default();
    for k in 0..4 {
        i.u[k] = u32v(t);
    }
    i.q[0] = u64v(t);
    i.q[1] = u64v(t);
    i.f32b = t.f32bits();
    i.f64b = t.f64bits();
    i.align = t.below(5) as u8;
    i.mem = t.below(N_MEMS as usize) as u32;
    i.lane = t.u8();
    i.flag = t.bool();
    // encode() resolves function / global / memory indices through its ID maps and panics on
    // indices that name nothing (documented contract: IDs must exist)
    match name {
        "call" | "ref_func" | "return_call" => i.u[0] %= N_FUNCS,
        "global_get" | "global_set" => i.u[0] %= N_GLOBALS,
        "memory_copy" => i.u[0] %= N_MEMS,
        _ => {}
    }
    i
}

/// bytes of the body (locals + code) of function `idx` (among local functions) of a module
fn body_bytes(module: &[u8], local_idx: usize) -> Option<Vec<u8>> {
    let mut k = 0;
    for p in wasmparser::Parser::new(0).parse_all(module) {
        if let Ok(wasmparser::Payload::CodeSectionEntry(b)) = p {
            if k == local_idx {
                let r = b.range();
                return module.get(r.start..r.end).map(|s| s.to_vec());
            }
            k += 1;
        }
    }
    None
}

fn expected_body(instrs: &[wasm_encoder::Instruction<'static>], tail: &[wasm_encoder::Instruction<'static>]) -> Vec<u8> {
    let mut f = wasm_encoder::Function::new(vec![]);
    for i in instrs {
        f.instruction(i);
    }
    for i in tail {
        f.instruction(i);
    }
    // Function::into_raw_body yields the body without the size prefix
    f.into_raw_body()
}

fn run_helper(h: &Helper, imm: &Imm, via_iter: bool, base: &'static [u8]) -> Result<(Vec<u8>, Vec<u8>), Outcome> {
    use wasm_encoder::Instruction as I;
    let mut module = lib_parse(base, true)?;
    let (got, want);
    if via_iter {
        let r = run_lib(|| {
            let mut it = wirm::iterator::module_iterator::ModuleIterator::new(&mut module, &vec![]);
            // first instruction of the first local function (`nop`)
            it.before();
            (h.via_iter)(&mut it, imm);
        });
        if let Err(p) = r {
            return Err(panic_fail(&format!("helper:{}", h.name), &p));
        }
        let out = lib_encode(&mut module)?;
        got = body_bytes(&out, 0).ok_or_else(|| fail("no-body", "function body not found in the output"))?;
        want = expected_body(&(h.expect)(imm), &[I::Nop, I::End]);
    } else {
        let r = run_lib(|| {
            let mut b = wirm::ir::function::FunctionBuilder::new(&[], &[]);
            (h.via_builder)(&mut b, imm);
            b.finish_module(&mut module)
        });
        let fid = match r {
            Ok(f) => f,
            Err(p) => return Err(panic_fail(&format!("helper:{}", h.name), &p)),
        };
        if *fid != N_FUNCS {
            return Err(fail("returned-id", format!("finish_module returned {} for the first added function of a module with {} functions", *fid, N_FUNCS)));
        }
        let out = lib_encode(&mut module)?;
        got = body_bytes(&out, 2).ok_or_else(|| fail("no-body", "built function not found in the output"))?;
        want = expected_body(&(h.expect)(imm), &[I::End]);
    }
    Ok((got, want))
}

fn describe(h: &Helper, imm: &Imm, via_iter: bool) -> String {
    format!("helper {} via {} with {:?}\nexpected instruction(s): {:?}", h.name, if via_iter { "ModuleIterator (before the first instruction)" } else { "FunctionBuilder" }, imm, (h.expect)(imm))
}

/// names of the helper methods declared in the `Opcode` and `MacroOpcode` trait blocks
fn source_helper_names() -> Vec<String> {
    let Ok(src) = std::fs::read_to_string("/repo/src/opcode.rs") else { return vec![] };
    let mut out = vec![];
    let mut inside = false;
    for line in src.lines() {
        if line.starts_with("pub trait Opcode") || line.starts_with("pub trait MacroOpcode") {
            inside = true;
            continue;
        }
        if line.starts_with('}') {
            inside = false;
        }
        if inside {
            let l = line.trim_start();
            if let Some(rest) = l.strip_prefix("fn ") {
                let name: String = rest.chars().take_while(|c| c.is_ascii_alphanumeric() || *c == '_').collect();
                out.push(name);
            }
        }
    }
    out
}

impl Driver for OpcodeHelpers {
    fn id(&self) -> &'static str {
        "C24"
    }
    fn rule(&self) -> &'static str {
        "tape -> (helper of Opcode/MacroOpcode from a hand-written table name -> expected wasm_encoder::Instruction, random immediates: boundary u32/u64 incl. values above i32/i64::MAX, float bit patterns incl. signalling/quiet NaN payloads, extreme memarg offsets, all alignments, heap/block type selectors; path: FunctionBuilder + finish_module, or ModuleIterator before-injection) -> encode -> the bytes of the function body must equal wasm-encoder's bytes of [expected instruction(s), (nop,) end]. Function/global/memory indices are kept in range (encode resolves them through its ID maps). In addition every helper of the table is enumerated with all-zero, all-ones and one mixed immediate set on both paths. Non-trivial: a helper with immediates and at least one non-zero immediate. Distinct = hash(helper, path, immediates). Completeness: helper names scanned from the two trait blocks of /repo/src/opcode.rs are compared with the table (classes `helpers_in_source`, `helpers_in_table`, `untabled:<name>`)."
    }
    fn tape_len(&self) -> usize {
        96
    }
    fn cases(&self, tier: Tier) -> u64 {
        match tier {
            Tier::Quick => 48_000,
            Tier::Thorough => 4_000_000,
        }
    }
    fn assumptions(&self) -> Vec<&'static str> {
        vec![
            "the helper table (name -> instruction) is written from the helper names and the spec mnemonics, not from the helper bodies",
            "wasm-encoder's byte encoding of the expected instruction is canonical (the library emits through wasm-encoder as well; a mismatch is additionally rendered with both byte strings)",
        ]
    }
    fn run(&self, c: &mut Case) -> Outcome {
        thread_local! {
            static TABLE: Vec<Helper> = helpers();
        }
        let base = base_module();
        TABLE.with(|hs| {
            {
                let k = c.t.below(hs.len());
                let h = &hs[k];
                let via_iter = c.t.bool();
                let imm = gen_imm(&mut c.t, h.name);
                c.note(|| describe(h, &imm, via_iter));
                let (got, want) = match run_helper(h, &imm, via_iter, base) {
                    Ok(x) => x,
                    Err(o) => return o,
                };
                if got != want {
                    return fail(
                        format!("wrong-instruction:{}", h.name),
                        format!("{}\nbody bytes in the output: {}\nexpected body bytes:      {}", describe(h, &imm, via_iter), hex(&got), hex(&want)),
                    );
                }
                c.class(if via_iter { "path:ModuleIterator" } else { "path:FunctionBuilder" });
                c.class(if h.has_imm { "helper:with_immediates" } else { "helper:plain" });
                let nonzero = imm.u.iter().any(|x| *x != 0) || imm.q[0] != 0 || imm.f32b != 0 || imm.f64b != 0 || imm.mem != 0;
                if h.has_imm && nonzero {
                    c.nontrivial(fnv(format!("{}|{}|{:?}", h.name, via_iter, imm).as_bytes()));
                }
                Outcome::Pass
            }
        })
    }
    fn extra(&self, tier: Tier, st: &mut Stats, hz: &Hazards, out: &mut Vec<Violation>, findings: &Findings) {
        // every helper, both paths, three fixed immediate sets (the tape bytes below decode to
        // helper k because `below(n)` is monotone: byte = ceil(k*256/n))
        let hs = helpers();
        let n = hs.len();
        assert!(n <= 256);
        let mut seen: std::collections::BTreeSet<String> = Default::default();
        for k in 0..n {
            let b0 = ((k * 256 + n - 1) / n) as u8;
            for path in [0u8, 255] {
                for fill in [0x00u8, 0xff, 0xa5] {
                    let mut tape = vec![b0, path];
                    tape.extend(std::iter::repeat(fill).take(94));
                    let (o, rendered, _) = run_one(self, &tape, st, hz, Mode::Main, tier, false);
                    st.evaluations += 1;
                    let o = pick_failure(self.id(), findings, o);
                    if let Outcome::Fail(f) = o {
                        if findings.matches(self.id(), &f.sig).is_none() && seen.insert(f.sig.clone()) && !out.iter().any(|v| v.sig == f.sig) {
                            let (_, r2, _) = run_one(self, &tape, &mut Stats::default(), hz, Mode::Main, tier, true);
                            out.push(Violation { sig: f.sig, detail: f.detail, tape: tape.clone(), mode: Mode::Main, rendered: if r2.is_empty() { rendered } else { r2 } });
                        }
                    }
                }
            }
        }
        *st.classes.entry("helpers_in_table".into()).or_default() = n as u64;
        *st.classes.entry("helpers_enumerated_x6".into()).or_default() = n as u64;
        let src = source_helper_names();
        *st.classes.entry("helpers_in_source".into()).or_default() = src.len() as u64;
        for s in &src {
            if !hs.iter().any(|h| h.name == s) {
                *st.classes.entry(format!("untabled:{}", s)).or_default() = 1;
            }
        }
    }
}
