//! One driver per property.
use crate::engine::Driver;

pub mod c01;
pub mod c03;
pub mod c15;
pub mod instr;
pub mod iter;
pub mod c23;
pub mod c24;
pub mod c24_table;
pub mod common;
pub mod comp;
pub mod determ;
pub mod edit;
pub mod edits;
pub mod exec;
pub mod small;

pub fn all_ids() -> Vec<&'static str> {
    vec!["C01", "C02", "C03", "C04", "C05", "C06", "C07", "C08", "C09", "C10", "C11", "C12", "C13", "C14", "C15", "C16", "C17", "C18", "C19", "C20", "C21", "C22", "C23", "C24", "C25", "C26", "C27", "C28", "C29", "C30"]
}

pub fn get(id: &str) -> Option<Box<dyn Driver>> {
    Some(match id {
        "C01" => Box::new(c01::RoundTrip { content: false }),
        "C02" => Box::new(c01::RoundTrip { content: true }),
        "C03" => Box::new(c03::ParseNoPanic),
        "C04" => Box::new(determ::Deterministic),
        "C05" => Box::new(determ::Reencode),
        "C06" => Box::new(edits::c06()),
        "C07" => Box::new(edits::c07()),
        "C08" => Box::new(edits::c08()),
        "C09" => Box::new(edits::c09()),
        "C10" => Box::new(edits::c10()),
        "C11" => Box::new(edits::c11()),
        "C12" => Box::new(small::BuiltFunctions),
        "C13" => Box::new(small::AddedTypes),
        "C14" => Box::new(small::AddedLocals),
        "C15" => Box::new(c15::PlainLowering),
        "C16" => Box::new(exec::c16()),
        "C17" => Box::new(exec::c17()),
        "C18" => Box::new(exec::c18()),
        "C19" => Box::new(exec::c19()),
        "C20" => Box::new(exec::c20()),
        "C21" => Box::new(c15::BlockAlt),
        "C22" => Box::new(c15::SpecialNotLost),
        "C23" => Box::new(c23::SideEffects),
        "C24" => Box::new(c24::OpcodeHelpers),
        "C25" => Box::new(iter::ModuleIter),
        "C26" => Box::new(iter::ComponentIter),
        "C27" => Box::new(comp::ComponentRoundTrip),
        "C28" => Box::new(small::CustomSections),
        "C29" => Box::new(edits::c29()),
        "C30" => Box::new(edits::c30()),
        _ => return None,
    })
}
