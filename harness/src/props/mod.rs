//! One driver per property.
use crate::engine::Driver;

pub mod c01;
pub mod c03;
// pub mod c24_table;
pub mod common;
pub mod edit;
pub mod edits;

pub fn all_ids() -> Vec<&'static str> {
    vec!["C01", "C02", "C03", "C06", "C07", "C08", "C09", "C10", "C11"]
}

pub fn get(id: &str) -> Option<Box<dyn Driver>> {
    Some(match id {
        "C01" => Box::new(c01::RoundTrip { content: false }),
        "C02" => Box::new(c01::RoundTrip { content: true }),
        "C03" => Box::new(c03::ParseNoPanic),
        "C06" => Box::new(edits::c06()),
        "C07" => Box::new(edits::c07()),
        "C08" => Box::new(edits::c08()),
        "C09" => Box::new(edits::c09()),
        "C10" => Box::new(edits::c10()),
        "C11" => Box::new(edits::c11()),
        _ => return None,
    })
}
