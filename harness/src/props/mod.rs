//! One driver per property.
use crate::engine::Driver;

pub mod c01;
pub mod c03;
// pub mod c24_table;
pub mod common;

pub fn all_ids() -> Vec<&'static str> {
    vec!["C01", "C02", "C03"]
}

pub fn get(id: &str) -> Option<Box<dyn Driver>> {
    Some(match id {
        "C01" => Box::new(c01::RoundTrip { content: false }),
        "C02" => Box::new(c01::RoundTrip { content: true }),
        "C03" => Box::new(c03::ParseNoPanic),
        _ => return None,
    })
}
