//! C25: the module iterator visits every instruction of every non-skipped local function
//! exactly once, in order, with correct locations and end flags; reset restarts; works on
//! any parsed module.
use super::common::*;
use crate::capture::run_lib;
use crate::dec::module as dm;
use crate::engine::*;
use crate::gen::{gen_module, Kind, Profile};
use crate::tape::fnv;
use std::collections::BTreeSet;
use wirm::ir::id::FunctionID;
use wirm::iterator::iterator_trait::Iterator as _;
use wirm::Location;

pub type Visit = (u32, usize, String, bool);

/// The sequence the property prescribes: every instruction of every local function that is
/// not skipped, in function and instruction order, with the end-of-function flag.
pub fn expected_visits(d: &dm::Dec, skips: &BTreeSet<u32>) -> Vec<Visit> {
    let mut v = vec![];
    for (fi, f) in d.funcs.iter().enumerate() {
        if f.import.is_some() || skips.contains(&(fi as u32)) {
            continue;
        }
        let n = f.ops.len();
        for (i, op) in f.ops.iter().enumerate() {
            v.push((fi as u32, i, op.clone(), i + 1 == n));
        }
    }
    v
}

/// Shape of a skip list relative to the local functions (used for signatures and classes).
pub fn skip_shape(locals: &[u32], skips: &BTreeSet<u32>) -> &'static str {
    let sk: Vec<bool> = locals.iter().map(|f| skips.contains(f)).collect();
    if locals.is_empty() {
        return "no_local_functions";
    }
    if sk.iter().all(|x| !*x) {
        return "none_skipped";
    }
    if sk.iter().all(|x| *x) {
        return "all_skipped";
    }
    let first = sk[0];
    let last = *sk.last().unwrap();
    match (first, last) {
        (true, true) => "first_and_last_skipped",
        (true, false) => "first_skipped",
        (false, true) => "trailing_skipped",
        (false, false) => "middle_skipped",
    }
}

/// Walk a module iterator the way the documentation does: look at the current instruction,
/// then `next()` until it returns None.  `limit` bounds a runaway iterator.
fn walk(it: &mut wirm::iterator::module_iterator::ModuleIterator, limit: usize, steps: Option<usize>) -> Result<Vec<Visit>, String> {
    let mut seq = vec![];
    if it.curr_op().is_none() {
        return Ok(seq);
    }
    loop {
        let (loc, is_end) = it.curr_loc();
        let Location::Module { func_idx, instr_idx } = loc else { return Err("curr_loc returned a component location".into()) };
        let op = match it.curr_op() {
            Some(o) => format!("{:?}", o),
            None => return Err(format!("curr_op() is None at visited location func {} instr {}", *func_idx, instr_idx)),
        };
        seq.push((*func_idx, instr_idx, op, is_end));
        if seq.len() > limit {
            return Err(format!("iterator visited more than {} instructions", limit));
        }
        if let Some(k) = steps {
            if seq.len() >= k {
                return Ok(seq);
            }
        }
        let nxt = it.next().map(|o| format!("{:?}", o));
        match nxt {
            None => break,
            Some(o) => {
                let cur = it.curr_op().map(|o| format!("{:?}", o));
                if cur.as_deref() != Some(o.as_str()) {
                    return Err(format!("next() returned {} but curr_op() is {:?}", o, cur));
                }
            }
        }
    }
    Ok(seq)
}

fn first_diff(want: &[Visit], got: &[Visit]) -> String {
    for i in 0..want.len().max(got.len()) {
        if want.get(i) != got.get(i) {
            return format!("visit #{}: expected {:?}, iterator gave {:?} (expected {} visits, got {})", i, want.get(i), got.get(i), want.len(), got.len());
        }
    }
    String::new()
}

pub struct ModuleIter;

impl ModuleIter {
    /// One (module, skip list) check: full walk, reset + full walk, partial walk + reset + full walk.
    fn check_one(&self, bytes: &[u8], d: &dm::Dec, locals: &[u32], skip_list: &[u32], partial: usize) -> Result<(), Fail> {
        let skips: BTreeSet<u32> = skip_list.iter().copied().collect();
        let want = expected_visits(d, &skips);
        let shape = skip_shape(locals, &skips);
        let limit = d.funcs.iter().map(|f| f.ops.len()).sum::<usize>() + 8;
        let skipv: Vec<FunctionID> = skip_list.iter().map(|f| FunctionID(*f)).collect();
        let mk = |stage: &str, what: String| Fail { sig: format!("{}:{}", stage, shape), detail: format!("skip list {:?} ({}): {}", skip_list, shape, what) };
        let mut module = match run_lib(|| wirm::Module::parse(bytes, true)) {
            Ok(Ok(m)) => m,
            Ok(Err(e)) => return Err(mk("parse-err", format!("{:?}", e))),
            Err(p) => return Err(mk("parse-panic", p.msg)),
        };
        let r = run_lib(|| -> Result<(), Fail> {
            let mut it = wirm::iterator::module_iterator::ModuleIterator::new(&mut module, &skipv);
            let a = walk(&mut it, limit, None).map_err(|e| mk("walk", e))?;
            if a != want {
                return Err(mk("visit-sequence", first_diff(&want, &a)));
            }
            it.reset();
            let b = walk(&mut it, limit, None).map_err(|e| mk("walk-after-reset", e))?;
            if b != want {
                return Err(mk("visit-sequence-after-reset", first_diff(&want, &b)));
            }
            if !want.is_empty() {
                // stop in the middle, reset, walk everything
                it.reset();
                let k = 1 + partial % want.len();
                let _ = walk(&mut it, limit, Some(k)).map_err(|e| mk("partial-walk", e))?;
                it.reset();
                let c2 = walk(&mut it, limit, None).map_err(|e| mk("walk-after-mid-reset", e))?;
                if c2 != want {
                    return Err(mk("visit-sequence-after-mid-reset", format!("reset after {} visits; {}", k, first_diff(&want, &c2))));
                }
            }
            Ok(())
        });
        match r {
            Ok(x) => x,
            Err(p) => Err(mk(&format!("panic:{}", crate::capture::mask(&p.signature(), 60)), format!("{}:{} {}", p.file, p.line, p.msg))),
        }
    }
}

impl Driver for ModuleIter {
    fn id(&self) -> &'static str {
        "C25"
    }
    fn rule(&self) -> &'static str {
        "tape -> valid G-static module (0-5 local functions, also modules with imports only) -> skip list chosen from {empty, first, last, trailing run, all, random subset, plus IDs of imported or non-existent functions}; in addition ALL subsets of the local functions are enumerated when there are <= 4 of them -> ModuleIterator::new(module, skips); walk = look at curr_op()/curr_loc(), then next() until None. Oracle: the sequence (function, instruction index, operator, end-of-function flag) equals the independently decoded instruction list of all non-skipped local functions in order; next() returns the operator of the new location; after reset() the same full sequence again, also when reset() is called in the middle of a walk; nothing panics, also with no local functions or everything skipped (then curr_op() is None and nothing is visited). Non-trivial: >=2 local functions of different lengths and a non-empty skip list. Distinct = hash(module, primary skip list)."
    }
    fn tape_len(&self) -> usize {
        2048
    }
    fn cases(&self, tier: Tier) -> u64 {
        match tier {
            Tier::Quick => 24_000,
            Tier::Thorough => 1_000_000,
        }
    }
    fn assumptions(&self) -> Vec<&'static str> {
        vec![
            "an iterator over nothing is observed through curr_op() == None and next() == None; curr_loc() is only called while curr_op() is Some",
            "wasmparser's operator reader is the reference for the instruction list of each function",
        ]
    }
    fn run(&self, c: &mut Case) -> Outcome {
        let mut profile = Profile::from_tape(&mut c.t);
        profile.gc = profile.gc && c.t.bool();
        let mut cfg = steer_cfg(c, Kind::Static, profile);
        cfg.max_funcs = 5;
        cfg.max_stmts = 3;
        let m = gen_module(&mut c.t, &cfg);
        let bytes = m.encode();
        if let Err(e) = dm::validate(&bytes) {
            c.gen_invalid();
            c.note(|| format!("GENERATOR BUG: {}\n{}", e, dm::print_wat(&bytes)));
            return Outcome::Discard("generator produced an invalid module");
        }
        let d = match dm::decode(&bytes) {
            Ok(d) => d,
            Err(e) => return fail("harness:decode", e),
        };
        let locals: Vec<u32> = (0..d.funcs.len() as u32).filter(|i| d.funcs[*i as usize].import.is_none()).collect();
        let nl = locals.len();
        // primary skip list
        let mut skip: Vec<u32> = match c.t.below(7) {
            0 => vec![],
            1 => locals.first().copied().into_iter().collect(),
            2 => locals.last().copied().into_iter().collect(),
            3 => {
                let k = c.t.below(nl + 1);
                locals[nl - k..].to_vec()
            }
            4 => locals.clone(),
            5 => {
                let k = c.t.below(nl + 1);
                locals[..k].to_vec()
            }
            _ => locals.iter().copied().filter(|_| c.t.bool()).collect(),
        };
        // listing imported or non-existent functions must not matter; order and duplicates neither
        if c.t.chance(1, 4) {
            for f in 0..d.funcs.len() as u32 {
                if d.funcs[f as usize].import.is_some() && c.t.bool() {
                    skip.push(f);
                }
            }
            if c.t.bool() {
                skip.push(d.funcs.len() as u32 + c.t.below(3) as u32);
            }
            if c.t.bool() {
                skip.reverse();
            }
            if !skip.is_empty() && c.t.bool() {
                skip.push(skip[0]);
            }
            c.class("skip_list_with_foreign_ids");
        }
        let partial = c.t.u16() as usize;
        c.note(|| format!("MODULE\n{}\nlocal functions {:?}, lengths {:?}\nSKIP {:?}", dm::print_wat(&bytes), locals, locals.iter().map(|f| d.funcs[*f as usize].ops.len()).collect::<Vec<_>>(), skip));
        let sset: BTreeSet<u32> = skip.iter().copied().collect();
        c.class(&format!("shape:{}", skip_shape(&locals, &sset)));
        c.class(&format!("local_funcs:{}", nl));
        let mut fails = vec![];
        if let Err(f) = self.check_one(&bytes, &d, &locals, &skip, partial) {
            fails.push(f);
        }
        if nl <= 4 && fails.is_empty() {
            for mask in 0u32..(1 << nl) {
                let s: Vec<u32> = locals.iter().enumerate().filter(|(i, _)| mask & (1 << i) != 0).map(|(_, f)| *f).collect();
                if let Err(f) = self.check_one(&bytes, &d, &locals, &s, partial) {
                    if !fails.iter().any(|g: &Fail| g.sig == f.sig) {
                        fails.push(f);
                    }
                }
            }
            c.class_n("skip_subsets_enumerated", 1 << nl);
        }
        if !fails.is_empty() {
            return Outcome::FailMany(fails);
        }
        let lens: BTreeSet<usize> = locals.iter().map(|f| d.funcs[*f as usize].ops.len()).collect();
        if nl >= 2 && lens.len() >= 2 && locals.iter().any(|f| sset.contains(f)) {
            c.nontrivial(fnv(&bytes) ^ fnv(format!("{:?}", skip).as_bytes()));
        }
        Outcome::Pass
    }
}
