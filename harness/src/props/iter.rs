//! C25: the module iterator visits every instruction of every non-skipped local function
//! exactly once, in order, with correct locations and end flags; reset restarts; works on
//! any parsed module.
use super::common::*;
use crate::capture::run_lib;
use crate::dec::module as dm;
use crate::engine::*;
use crate::gen::{gen_module, Kind, Profile};
use crate::tape::fnv;
use std::collections::BTreeSet;
use wirm::ir::id::FunctionID;
use wirm::iterator::iterator_trait::Iterator as _;
use wirm::Location;

pub type Visit = (u32, usize, String, bool);

/// The sequence the property prescribes: every instruction of every local function that is
/// not skipped, in function and instruction order, with the end-of-function flag.
pub fn expected_visits(d: &dm::Dec, skips: &BTreeSet<u32>) -> Vec<Visit> {
    let mut v = vec![];
    for (fi, f) in d.funcs.iter().enumerate() {
        if f.import.is_some() || skips.contains(&(fi as u32)) {
            continue;
        }
        let n = f.ops.len();
        for (i, op) in f.ops.iter().enumerate() {
            v.push((fi as u32, i, op.clone(), i + 1 == n));
        }
    }
    v
}

/// Shape of a skip list relative to the local functions (used for signatures and classes).
pub fn skip_shape(locals: &[u32], skips: &BTreeSet<u32>) -> &'static str {
    let sk: Vec<bool> = locals.iter().map(|f| skips.contains(f)).collect();
    if locals.is_empty() {
        return "no_local_functions";
    }
    if sk.iter().all(|x| !*x) {
        return "none_skipped";
    }
    if sk.iter().all(|x| *x) {
        return "all_skipped";
    }
    let first = sk[0];
    let last = *sk.last().unwrap();
    match (first, last) {
        (true, true) => "first_and_last_skipped",
        (true, false) => "first_skipped",
        (false, true) => "trailing_skipped",
        (false, false) => "middle_skipped",
    }
}

/// Walk a module iterator the way the documentation does: look at the current instruction,
/// then `next()` until it returns None.  `limit` bounds a runaway iterator.
fn walk(it: &mut wirm::iterator::module_iterator::ModuleIterator, limit: usize, steps: Option<usize>) -> Result<Vec<Visit>, String> {
    let mut seq = vec![];
    if it.curr_op().is_none() {
        return Ok(seq);
    }
    loop {
        let (loc, is_end) = it.curr_loc();
        let Location::Module { func_idx, instr_idx } = loc else { return Err("curr_loc returned a component location".into()) };
        let op = match it.curr_op() {
            Some(o) => format!("{:?}", o),
            None => return Err(format!("curr_op() is None at visited location func {} instr {}", *func_idx, instr_idx)),
        };
        let owned = it.curr_op_owned().map(|o| format!("{:?}", o));
        if owned.as_deref() != Some(op.as_str()) {
            return Err(format!("curr_op_owned() is {:?} where curr_op() is {} (func {} instr {})", owned, op, *func_idx, instr_idx));
        }
        seq.push((*func_idx, instr_idx, op, is_end));
        if seq.len() > limit {
            return Err(format!("iterator visited more than {} instructions", limit));
        }
        if let Some(k) = steps {
            if seq.len() >= k {
                return Ok(seq);
            }
        }
        let nxt = it.next().map(|o| format!("{:?}", o));
        match nxt {
            None => break,
            Some(o) => {
                let cur = it.curr_op().map(|o| format!("{:?}", o));
                if cur.as_deref() != Some(o.as_str()) {
                    return Err(format!("next() returned {} but curr_op() is {:?}", o, cur));
                }
            }
        }
    }
    Ok(seq)
}

fn first_diff(want: &[Visit], got: &[Visit]) -> String {
    for i in 0..want.len().max(got.len()) {
        if want.get(i) != got.get(i) {
            return format!("visit #{}: expected {:?}, iterator gave {:?} (expected {} visits, got {})", i, want.get(i), got.get(i), want.len(), got.len());
        }
    }
    String::new()
}

pub struct ModuleIter;

impl ModuleIter {
    /// One (module, skip list) check: full walk, reset + full walk, partial walk + reset + full walk.
    fn check_one(&self, bytes: &[u8], d: &dm::Dec, locals: &[u32], skip_list: &[u32], partial: usize) -> Result<(), Fail> {
        let skips: BTreeSet<u32> = skip_list.iter().copied().collect();
        let want = expected_visits(d, &skips);
        let shape = skip_shape(locals, &skips);
        let limit = d.funcs.iter().map(|f| f.ops.len()).sum::<usize>() + 8;
        let skipv: Vec<FunctionID> = skip_list.iter().map(|f| FunctionID(*f)).collect();
        let mk = |stage: &str, what: String| Fail { sig: format!("{}:{}", stage, shape), detail: format!("skip list {:?} ({}): {}", skip_list, shape, what) };
        let mut module = match run_lib(|| wirm::Module::parse(bytes, true)) {
            Ok(Ok(m)) => m,
            Ok(Err(e)) => return Err(mk("parse-err", format!("{:?}", e))),
            Err(p) => return Err(mk("parse-panic", p.msg)),
        };
        let r = run_lib(|| -> Result<(), Fail> {
            let mut it = wirm::iterator::module_iterator::ModuleIterator::new(&mut module, &skipv);
            let a = walk(&mut it, limit, None).map_err(|e| mk("walk", e))?;
            if a != want {
                return Err(mk("visit-sequence", first_diff(&want, &a)));
            }
            it.reset();
            let b = walk(&mut it, limit, None).map_err(|e| mk("walk-after-reset", e))?;
            if b != want {
                return Err(mk("visit-sequence-after-reset", first_diff(&want, &b)));
            }
            if !want.is_empty() {
                // stop in the middle, reset, walk everything
                it.reset();
                let k = 1 + partial % want.len();
                let _ = walk(&mut it, limit, Some(k)).map_err(|e| mk("partial-walk", e))?;
                it.reset();
                let c2 = walk(&mut it, limit, None).map_err(|e| mk("walk-after-mid-reset", e))?;
                if c2 != want {
                    return Err(mk("visit-sequence-after-mid-reset", format!("reset after {} visits; {}", k, first_diff(&want, &c2))));
                }
            }
            Ok(())
        });
        match r {
            Ok(x) => x,
            Err(p) => Err(mk(&format!("panic:{}", crate::capture::mask(&p.signature(), 60)), format!("{}:{} {}", p.file, p.line, p.msg))),
        }
    }
}

impl Driver for ModuleIter {
    fn id(&self) -> &'static str {
        "C25"
    }
    fn rule(&self) -> &'static str {
        "tape -> valid G-static module (0-5 local functions, also modules with imports only) -> skip list chosen from {empty, first, last, trailing run, all, random subset, plus IDs of imported or non-existent functions}; in addition ALL subsets of the local functions are enumerated when there are <= 4 of them -> ModuleIterator::new(module, skips); walk = look at curr_op()/curr_loc(), then next() until None. Oracle: the sequence (function, instruction index, operator, end-of-function flag) equals the independently decoded instruction list of all non-skipped local functions in order; next() returns the operator of the new location; after reset() the same full sequence again, also when reset() is called in the middle of a walk; nothing panics, also with no local functions or everything skipped (then curr_op() is None and nothing is visited). Non-trivial: >=2 local functions of different lengths and a non-empty skip list. Distinct = hash(module, primary skip list)."
    }
    fn tape_len(&self) -> usize {
        2048
    }
    fn cases(&self, tier: Tier) -> u64 {
        match tier {
            Tier::Quick => 24_000,
            Tier::Thorough => 1_000_000,
        }
    }
    fn assumptions(&self) -> Vec<&'static str> {
        vec![
            "an iterator over nothing is observed through curr_op() == None and next() == None; curr_loc() is only called while curr_op() is Some",
            "wasmparser's operator reader is the reference for the instruction list of each function",
        ]
    }
    fn run(&self, c: &mut Case) -> Outcome {
        let mut profile = Profile::from_tape(&mut c.t);
        profile.gc = profile.gc && c.t.bool();
        let mut cfg = steer_cfg(c, Kind::Static, profile);
        cfg.max_funcs = 5;
        cfg.max_stmts = 3;
        let m = gen_module(&mut c.t, &cfg);
        let bytes = m.encode();
        if let Err(e) = dm::validate(&bytes) {
            c.gen_invalid();
            c.note(|| format!("GENERATOR BUG: {}\n{}", e, dm::print_wat(&bytes)));
            return Outcome::Discard("generator produced an invalid module");
        }
        let d = match dm::decode(&bytes) {
            Ok(d) => d,
            Err(e) => return fail("harness:decode", e),
        };
        let locals: Vec<u32> = (0..d.funcs.len() as u32).filter(|i| d.funcs[*i as usize].import.is_none()).collect();
        let nl = locals.len();
        // primary skip list
        let mut skip: Vec<u32> = match c.t.below(7) {
            0 => vec![],
            1 => locals.first().copied().into_iter().collect(),
            2 => locals.last().copied().into_iter().collect(),
            3 => {
                let k = c.t.below(nl + 1);
                locals[nl - k..].to_vec()
            }
            4 => locals.clone(),
            5 => {
                let k = c.t.below(nl + 1);
                locals[..k].to_vec()
            }
            _ => locals.iter().copied().filter(|_| c.t.bool()).collect(),
        };
        // listing imported or non-existent functions must not matter; order and duplicates neither
        if c.t.chance(1, 4) {
            for f in 0..d.funcs.len() as u32 {
                if d.funcs[f as usize].import.is_some() && c.t.bool() {
                    skip.push(f);
                }
            }
            if c.t.bool() {
                skip.push(d.funcs.len() as u32 + c.t.below(3) as u32);
            }
            if c.t.bool() {
                skip.reverse();
            }
            if !skip.is_empty() && c.t.bool() {
                skip.push(skip[0]);
            }
            c.class("skip_list_with_foreign_ids");
        }
        // the order of a skip list carries no meaning
        if skip.len() >= 2 && c.t.chance(1, 3) {
            shuffle(&mut skip, &mut c.t);
            c.class("skip_list_not_ascending");
        }
        let partial = c.t.u16() as usize;
        c.note(|| format!("MODULE\n{}\nlocal functions {:?}, lengths {:?}\nSKIP {:?}", dm::print_wat(&bytes), locals, locals.iter().map(|f| d.funcs[*f as usize].ops.len()).collect::<Vec<_>>(), skip));
        let sset: BTreeSet<u32> = skip.iter().copied().collect();
        c.class(&format!("shape:{}", skip_shape(&locals, &sset)));
        c.class(&format!("local_funcs:{}", nl));
        let mut fails = vec![];
        if let Err(f) = self.check_one(&bytes, &d, &locals, &skip, partial) {
            fails.push(f);
        }
        if nl <= 4 && fails.is_empty() {
            for mask in 0u32..(1 << nl) {
                let s: Vec<u32> = locals.iter().enumerate().filter(|(i, _)| mask & (1 << i) != 0).map(|(_, f)| *f).collect();
                if let Err(f) = self.check_one(&bytes, &d, &locals, &s, partial) {
                    if !fails.iter().any(|g: &Fail| g.sig == f.sig) {
                        fails.push(f);
                    }
                }
            }
            c.class_n("skip_subsets_enumerated", 1 << nl);
        }
        if !fails.is_empty() {
            return Outcome::FailMany(fails);
        }
        let lens: BTreeSet<usize> = locals.iter().map(|f| d.funcs[*f as usize].ops.len()).collect();
        if nl >= 2 && lens.len() >= 2 && locals.iter().any(|f| sset.contains(f)) {
            c.nontrivial(fnv(&bytes) ^ fnv(format!("{:?}", skip).as_bytes()));
        }
        Outcome::Pass
    }
}

// ------------------------------------------------------------------------------------ C26
use super::instr::{is_open, marker_payload, structure, IMode, Inj, Path};
use std::collections::HashMap;
use wirm::ir::id::ModuleID;
use wirm::iterator::iterator_trait::IteratingInstrumenter;
use wirm::opcode::{Inject, InjectAt, Instrumenter};

pub type CVisit = (u32, u32, usize, String, bool);

/// top-level core modules of a component binary, in order
pub fn extract_modules(comp: &[u8]) -> Vec<Vec<u8>> {
    let mut out = vec![];
    let mut depth = 0usize;
    for p in wasmparser::Parser::new(0).parse_all(comp) {
        match p {
            Ok(wasmparser::Payload::ModuleSection { unchecked_range, .. }) => {
                if depth == 0 {
                    if let Some(s) = comp.get(unchecked_range.start..unchecked_range.end) {
                        out.push(s.to_vec());
                    }
                }
                depth += 1;
            }
            Ok(wasmparser::Payload::ComponentSection { .. }) => depth += 1,
            Ok(wasmparser::Payload::End(_)) => depth = depth.saturating_sub(1),
            Ok(_) => {}
            Err(_) => break,
        }
    }
    out
}

fn loc_parts(loc: Location) -> (u32, u32, usize) {
    match loc {
        Location::Module { func_idx, instr_idx } => (0, *func_idx, instr_idx),
        Location::Component { mod_idx, func_idx, instr_idx } => (*mod_idx, *func_idx, instr_idx),
    }
}
fn loc_with_instr(loc: Location, instr_idx: usize) -> Location {
    match loc {
        Location::Module { func_idx, .. } => Location::Module { func_idx, instr_idx },
        Location::Component { mod_idx, func_idx, .. } => Location::Component { mod_idx, func_idx, instr_idx },
    }
}

fn apply_one<'a, I>(it: &mut I, inj: &Inj, here: Location)
where
    I: IteratingInstrumenter<'a> + Inject<'a> + InjectAt<'a> + Instrumenter<'a>,
{
    let at_current = matches!(inj.path, Path::IterCur | Path::CompCur);
    match inj.mode {
        IMode::FuncEntry => {
            it.func_entry();
            for o in &inj.payload {
                it.inject(o.clone());
            }
        }
        IMode::FuncExit => {
            it.func_exit();
            for o in &inj.payload {
                it.inject(o.clone());
            }
        }
        IMode::EmptyAlt => {
            if at_current {
                it.empty_alternate();
            } else {
                it.empty_alternate_at(loc_with_instr(here, inj.instr));
            }
        }
        IMode::EmptyBlockAlt => {
            if at_current {
                it.empty_block_alt();
            } else {
                it.empty_block_alt_at(loc_with_instr(here, inj.instr));
            }
        }
        m => {
            if at_current {
                match m {
                    IMode::Before => it.before(),
                    IMode::After => it.after(),
                    IMode::Alt => it.alternate(),
                    IMode::SemAfter => it.semantic_after(),
                    IMode::BlockEntry => it.block_entry(),
                    IMode::BlockExit => it.block_exit(),
                    IMode::BlockAlt => it.block_alt(),
                    _ => unreachable!(),
                };
                for o in &inj.payload {
                    it.inject(o.clone());
                }
            } else {
                for o in &inj.payload {
                    it.inject_at(inj.instr, m.lib().unwrap(), o.clone());
                }
            }
        }
    }
}

/// One pass over everything the iterator visits; at every location the injections planned
/// for it are issued (instruction-level ones first, function-level ones at the function's
/// last instruction).  Returns the visit sequence and, per plan entry, whether the call was
/// rejected (panicked).
/// `curr_op_owned()` is an inherent method of both iterators: the owned copy of the operator
/// `curr_op()` borrows.
trait OwnedOp {
    fn owned_dbg(&self) -> Option<String>;
}
impl OwnedOp for wirm::iterator::module_iterator::ModuleIterator<'_, '_> {
    fn owned_dbg(&self) -> Option<String> {
        self.curr_op_owned().map(|o| format!("{:?}", o))
    }
}
impl OwnedOp for wirm::iterator::component_iterator::ComponentIterator<'_, '_> {
    fn owned_dbg(&self) -> Option<String> {
        self.curr_op_owned().map(|o| format!("{:?}", o))
    }
}

fn pass<'a, I>(it: &mut I, plan: &[(u32, Inj)], this_mod: Option<u32>, limit: usize) -> Result<(Vec<CVisit>, Vec<Option<String>>), String>
where
    I: wirm::iterator::iterator_trait::Iterator + IteratingInstrumenter<'a> + Inject<'a> + InjectAt<'a> + Instrumenter<'a> + OwnedOp,
{
    let mut seq: Vec<CVisit> = vec![];
    let mut rejected: Vec<Option<String>> = vec![None; plan.len()];
    let mut applied = vec![false; plan.len()];
    if it.curr_op().is_none() {
        return Ok((seq, rejected));
    }
    loop {
        let (loc, is_end) = it.curr_loc();
        let (mi, f, i) = loc_parts(loc);
        let mi = this_mod.unwrap_or(mi);
        let op = match it.curr_op() {
            Some(o) => format!("{:?}", o),
            None => return Err(format!("curr_op() is None at visited location module {} func {} instr {}", mi, f, i)),
        };
        let owned = it.owned_dbg();
        if owned.as_deref() != Some(op.as_str()) {
            return Err(format!("curr_op_owned() is {:?} where curr_op() is {} (module {} func {} instr {})", owned, op, mi, f, i));
        }
        seq.push((mi, f, i, op, is_end));
        if seq.len() > limit {
            return Err(format!("iterator visited more than {} instructions", limit));
        }
        // instruction-level injections: at their location (current-location paths) or from
        // the first instruction of their function (inject_at paths)
        for phase in 0..2 {
            for (k, (pm, inj)) in plan.iter().enumerate() {
                if applied[k] || *pm != mi || inj.func != f {
                    continue;
                }
                let at_current = matches!(inj.path, Path::IterCur | Path::CompCur);
                let due = if inj.mode.is_func_level() {
                    phase == 1 && is_end
                } else if at_current {
                    phase == 0 && inj.instr == i
                } else {
                    phase == 0 && i == 0
                };
                if !due {
                    continue;
                }
                applied[k] = true;
                let r = run_lib(|| apply_one(it, inj, loc));
                rejected[k] = r.err().map(|p| p.msg);
            }
        }
        let nxt = it.next().map(|o| format!("{:?}", o));
        match nxt {
            None => break,
            Some(o) => {
                let cur = it.curr_op().map(|o| format!("{:?}", o));
                if cur.as_deref() != Some(o.as_str()) {
                    return Err(format!("next() returned {} but curr_op() is {:?}", o, cur));
                }
            }
        }
    }
    Ok((seq, rejected))
}

pub struct ComponentIter;

fn applicable(mode: IMode, op: &str) -> bool {
    let n = dm::op_name(op);
    let blockish = matches!(n, "Block" | "Loop" | "If" | "Else");
    let branch = matches!(n, "Br" | "BrIf" | "BrTable" | "BrOnCast" | "BrOnCastFail" | "BrOnNull" | "BrOnNonNull");
    let structural = matches!(n, "Block" | "Loop" | "If" | "Else" | "End" | "TryTable" | "Try" | "Catch" | "CatchAll" | "Delegate");
    match mode {
        IMode::SemAfter => blockish || branch,
        IMode::BlockEntry | IMode::BlockExit | IMode::BlockAlt | IMode::EmptyBlockAlt => blockish,
        IMode::Alt | IMode::EmptyAlt => !structural,
        _ => true,
    }
}

impl Driver for ComponentIter {
    fn id(&self) -> &'static str {
        "C26"
    }
    fn rule(&self) -> &'static str {
        "tape -> 1-4 valid G-static modules (0-4 local functions each, also modules without local functions) -> component = the modules as top-level core-module sections with custom sections in between -> skip map (per module: none / first / last / trailing run / all / random subset; entries may be missing) -> (1) ComponentIterator::new(comp, skip map): the visit sequence (module, function, instruction, operator, end flag) must equal the concatenation, in module order, of the independently decoded instruction lists of the non-skipped local functions of each module; the same after reset(), also after a reset in the middle; (2) a plan of 0-8 injections (before / after / alternate / removal / semantic-after / block-entry / block-exit / block-alternate / function entry / exit, at the current location or through inject_at) on non-skipped functions is issued in one pass of the ComponentIterator and, separately, module by module in one pass of a ModuleIterator with that module's skip list over the module parsed on its own; the modules extracted from the encoded component must have the same decoded content as the separately encoded modules, the same calls must be rejected on both sides, and an encode panic must occur on both sides or on neither. Non-trivial: >=2 modules, >=1 skip entry and >=1 injection in a module other than the first. Distinct = hash(component, skip map, plan)."
    }
    fn tape_len(&self) -> usize {
        4096
    }
    fn cases(&self, tier: Tier) -> u64 {
        match tier {
            Tier::Quick => 16_000,
            Tier::Thorough => 600_000,
        }
    }
    fn assumptions(&self) -> Vec<&'static str> {
        vec![
            "part (2) is differential: the library's module-level path is the reference for its component-level path, as the statement says; part (1) uses the independent decode",
            "an empty iteration is observed through curr_op()/next() returning None",
        ]
    }
    fn run(&self, c: &mut Case) -> Outcome {
        let nmods = c.t.range(1, 4);
        let mut mods: Vec<(Vec<u8>, dm::Dec)> = vec![];
        for _ in 0..nmods {
            let mut profile = Profile::from_tape(&mut c.t);
            profile.gc = profile.gc && c.t.bool();
            let mut cfg = steer_cfg(c, Kind::Static, profile);
            cfg.max_funcs = 4;
            cfg.max_stmts = 3;
            let m = gen_module(&mut c.t, &cfg);
            let bytes = m.encode();
            if let Err(e) = dm::validate(&bytes) {
                c.gen_invalid();
                c.note(|| format!("GENERATOR BUG: {}\n{}", e, dm::print_wat(&bytes)));
                return Outcome::Discard("generator produced an invalid module");
            }
            let d = match dm::decode(&bytes) {
                Ok(d) => d,
                Err(e) => return fail("harness:decode", e),
            };
            mods.push((bytes, d));
        }
        // component
        let mut comp = wasm_encoder::Component::new();
        for (k, (b, _)) in mods.iter().enumerate() {
            if c.t.chance(1, 4) {
                comp.section(&wasm_encoder::CustomSection { name: format!("between{}", k).into(), data: vec![k as u8; 3].into() });
            }
            comp.section(&wasm_encoder::RawSection { id: 1, data: b });
        }
        let comp_bytes = comp.finish();
        // skip map
        let mut skip_map: HashMap<ModuleID, Vec<FunctionID>> = HashMap::new();
        let mut skips: Vec<BTreeSet<u32>> = vec![];
        let mut any_skip = false;
        for (k, (_, d)) in mods.iter().enumerate() {
            let locals: Vec<u32> = (0..d.funcs.len() as u32).filter(|i| d.funcs[*i as usize].import.is_none()).collect();
            let nl = locals.len();
            let s: Vec<u32> = match c.t.below(8) {
                0 | 1 => vec![],
                2 => locals.first().copied().into_iter().collect(),
                3 => locals.last().copied().into_iter().collect(),
                4 => {
                    let n = c.t.below(nl + 1);
                    locals[nl - n..].to_vec()
                }
                5 => locals.clone(),
                _ => locals.iter().copied().filter(|_| c.t.bool()).collect(),
            };
            let mut s = s;
            if s.len() >= 2 && c.t.chance(1, 3) {
                shuffle(&mut s, &mut c.t);
                c.class("skip_list_not_ascending");
            }
            let sset: BTreeSet<u32> = s.iter().copied().collect();
            c.class(&format!("shape:{}", skip_shape(&locals, &sset)));
            if !s.is_empty() || c.t.bool() {
                skip_map.insert(ModuleID(k as u32), s.iter().map(|f| FunctionID(*f)).collect());
            }
            any_skip |= !s.is_empty();
            skips.push(sset);
        }
        // plan
        let mut plan: Vec<(u32, Inj)> = vec![];
        let n_inj = c.t.below(9);
        let mut marker = 6000;
        for _ in 0..n_inj {
            let k = c.t.below(nmods);
            let d = &mods[k].1;
            let cand: Vec<u32> = (0..d.funcs.len() as u32).filter(|i| d.funcs[*i as usize].import.is_none() && !skips[k].contains(i)).collect();
            if cand.is_empty() {
                continue;
            }
            let f = *c.t.pick(&cand);
            let ops = &d.funcs[f as usize].ops;
            let mode = *c.t.pick(&[
                IMode::Before, IMode::Before, IMode::After, IMode::After, IMode::Alt, IMode::EmptyAlt, IMode::SemAfter, IMode::BlockEntry, IMode::BlockExit, IMode::BlockAlt, IMode::EmptyBlockAlt, IMode::FuncEntry, IMode::FuncExit,
            ]);
            let fitting: Vec<usize> = (0..ops.len()).filter(|i| applicable(mode, &ops[*i])).collect();
            // one time in eight anywhere (both sides must then reject the same calls)
            let at = if !fitting.is_empty() && c.t.chance(7, 8) { *c.t.pick(&fitting) } else { c.t.below(ops.len()) };
            if mode.is_func_level() && plan.iter().any(|(pk, i)| *pk == k as u32 && i.func == f && i.mode == mode) {
                continue;
            }
            let _ = (is_open(&ops[at]), structure(ops).depth.len());
            marker += 1;
            let path = if c.t.bool() { Path::CompCur } else { Path::CompInjectAt };
            let payload = if matches!(mode, IMode::EmptyAlt | IMode::EmptyBlockAlt) { vec![] } else { marker_payload(marker) };
            plan.push((k as u32, Inj { func: f, instr: at, mode, path, payload, marker }));
        }
        let render_plan = |plan: &[(u32, Inj)]| plan.iter().map(|(k, i)| format!("  module {} func {} instr {} {} via {} marker {}", k, i.func, i.instr, i.mode.name(), i.path.name(), i.marker)).collect::<Vec<_>>().join("\n");
        c.note(|| {
            let mut s = String::new();
            for (k, (b, _)) in mods.iter().enumerate() {
                s.push_str(&format!("MODULE {} (skip {:?})\n{}\n", k, skips[k], dm::print_wat(b)));
            }
            s.push_str(&format!("SKIP MAP keys {:?}\nPLAN\n{}", { let mut v: Vec<u32> = skip_map.keys().map(|k| **k).collect(); v.sort(); v }, render_plan(&plan)));
            s
        });
        let total: usize = mods.iter().map(|(_, d)| d.funcs.iter().map(|f| f.ops.len()).sum::<usize>()).sum::<usize>() + 8;
        let mut want: Vec<CVisit> = vec![];
        for (k, (_, d)) in mods.iter().enumerate() {
            for (f, i, op, e) in expected_visits(d, &skips[k]) {
                want.push((k as u32, f, i, op, e));
            }
        }
        let shape_sig: String = {
            let mut v: Vec<&str> = mods.iter().enumerate().map(|(k, (_, d))| {
                let locals: Vec<u32> = (0..d.funcs.len() as u32).filter(|i| d.funcs[*i as usize].import.is_none()).collect();
                skip_shape(&locals, &skips[k])
            }).collect();
            v.retain(|s| *s != "none_skipped");
            v.first().copied().unwrap_or("none_skipped").to_string()
        };
        let mk = |stage: &str, what: String| fail(format!("{}:{}", stage, shape_sig), what);
        // ---- (1) visiting
        let mut comp1 = match run_lib(|| wirm::Component::parse(&comp_bytes, true)) {
            Ok(Ok(x)) => x,
            Ok(Err(e)) => return fail("component-parse-err", format!("{:?}", e)),
            Err(p) => return panic_fail("component-parse", &p),
        };
        let partial = c.t.u16() as usize;
        let r = run_lib(|| -> Result<(), Outcome> {
            let mut it = wirm::iterator::component_iterator::ComponentIterator::new(&mut comp1, skip_map.clone());
            let (a, _) = pass(&mut it, &[], None, total).map_err(|e| mk("walk", e))?;
            if a != want {
                return Err(mk("visit-sequence", first_diff_c(&want, &a)));
            }
            it.reset();
            let (b, _) = pass(&mut it, &[], None, total).map_err(|e| mk("walk-after-reset", e))?;
            if b != want {
                return Err(mk("visit-sequence-after-reset", first_diff_c(&want, &b)));
            }
            if !want.is_empty() {
                it.reset();
                let k = 1 + partial % want.len();
                let mut n = 1;
                while n < k && it.next().is_some() {
                    n += 1;
                }
                it.reset();
                let (c2, _) = pass(&mut it, &[], None, total).map_err(|e| mk("walk-after-mid-reset", e))?;
                if c2 != want {
                    return Err(mk("visit-sequence-after-mid-reset", format!("reset after {} visits; {}", k, first_diff_c(&want, &c2))));
                }
            }
            Ok(())
        });
        match r {
            Ok(Ok(())) => {}
            Ok(Err(o)) => return o,
            Err(p) => return mk(&format!("panic:{}", crate::capture::mask(&p.signature(), 60)), format!("{}:{} {}", p.file, p.line, p.msg)),
        }
        // ---- (2) injection equivalence
        let mut comp2 = match run_lib(|| wirm::Component::parse(&comp_bytes, true)) {
            Ok(Ok(x)) => x,
            _ => return fail("component-parse-err", "second parse failed"),
        };
        let rc = run_lib(|| {
            let mut it = wirm::iterator::component_iterator::ComponentIterator::new(&mut comp2, skip_map.clone());
            pass(&mut it, &plan, None, total)
        });
        let (_, rej_c) = match rc {
            Ok(Ok(x)) => x,
            Ok(Err(e)) => return mk("instrumenting-walk", e),
            Err(p) => return mk(&format!("panic:{}", crate::capture::mask(&p.signature(), 60)), format!("{}:{} {}", p.file, p.line, p.msg)),
        };
        let enc_c = run_lib(|| comp2.encode());
        // module by module
        let mut enc_m: Vec<Result<Vec<u8>, String>> = vec![];
        let mut rej_m: Vec<Option<String>> = vec![None; plan.len()];
        for (k, (b, _)) in mods.iter().enumerate() {
            let mut module = match lib_parse(b, true) {
                Ok(m) => m,
                Err(o) => return o,
            };
            let sub: Vec<(usize, (u32, Inj))> = plan.iter().enumerate().filter(|(_, (pk, _))| *pk == k as u32).map(|(i, (pk, inj))| {
                let mut inj = inj.clone();
                inj.path = if inj.path == Path::CompCur { Path::IterCur } else { Path::IterInjectAt };
                (i, (*pk, inj))
            }).collect();
            let subplan: Vec<(u32, Inj)> = sub.iter().map(|(_, p)| p.clone()).collect();
            let skipv: Vec<FunctionID> = skips[k].iter().map(|f| FunctionID(*f)).collect();
            let rm = run_lib(|| {
                let mut it = wirm::iterator::module_iterator::ModuleIterator::new(&mut module, &skipv);
                pass(&mut it, &subplan, Some(k as u32), total)
            });
            match rm {
                Ok(Ok((_, rej))) => {
                    for (j, (i, _)) in sub.iter().enumerate() {
                        rej_m[*i] = rej[j].clone();
                    }
                }
                Ok(Err(e)) => return fail("harness:module-walk", e),
                Err(p) => return fail("harness:module-walk-panic", format!("{}:{} {}", p.file, p.line, p.msg)),
            }
            enc_m.push(run_lib(|| module.encode()).map_err(|p| p.signature()));
        }
        for k in 0..plan.len() {
            if rej_c[k].is_some() != rej_m[k].is_some() {
                return fail(
                    format!("rejection-differs:{}", plan[k].1.mode.name()),
                    format!("injection {:?}: component iterator {:?}, module iterator {:?}", plan[k], rej_c[k], rej_m[k]),
                );
            }
        }
        let any_module_panic = enc_m.iter().find_map(|r| r.as_ref().err().cloned());
        match (&enc_c, &any_module_panic) {
            (Err(_), Some(_)) => return Outcome::Discard("plan makes encode panic on both sides"),
            (Err(p), None) => return fail(format!("encode-panics-only-via-component:{}", crate::capture::mask(&p.signature(), 50)), format!("{}:{} {}", p.file, p.line, p.msg)),
            (Ok(_), Some(s)) => return fail(format!("encode-panics-only-via-module:{}", crate::capture::mask(s, 50)), s.clone()),
            (Ok(_), None) => {}
        }
        let out = enc_c.unwrap();
        let got = extract_modules(&out);
        if got.len() != nmods {
            return fail("module-count", format!("encoded component has {} top-level modules, input had {}", got.len(), nmods));
        }
        let opts = dm::FlatOpts { by_identity: false, include_names: true, include_customs: true };
        let mut fails = vec![];
        for k in 0..nmods {
            let a = match dm::decode(enc_m[k].as_ref().unwrap()) {
                Ok(d) => d,
                Err(_) => continue, // undecodable on the module side: compare bytes
            };
            let b = match dm::decode(&got[k]) {
                Ok(d) => d,
                Err(e) => {
                    fails.push(Fail { sig: "component-side-undecodable".into(), detail: format!("module {}: {}", k, e) });
                    continue;
                }
            };
            let mut fa = dm::flatten(&a, &dm::Ids::trivial(&a), &opts);
            let mut fb = dm::flatten(&b, &dm::Ids::trivial(&b), &opts);
            // the function-exit lowering wraps the body in a block whose type is looked up by
            // signature; with duplicate identical types in the module the index it finds is not
            // determined (C04's subject), so block types are compared structurally
            structural_block_types(&mut fa, &a);
            structural_block_types(&mut fb, &b);
            for (p, e, o) in dm::all_diffs(&fa, &fb, 8) {
                fails.push(Fail { sig: format!("module-differs:{}", dm::path_class(&p)), detail: format!("module {} {}: via ModuleIterator {:?}, via ComponentIterator {:?}", k, p, e, o) });
            }
        }
        if !fails.is_empty() {
            return Outcome::FailMany(fails);
        }
        c.class(&format!("modules:{}", nmods));
        for (_, i) in &plan {
            c.class(&format!("mode:{}", i.mode.name()));
        }
        if rej_c.iter().any(|r| r.is_some()) {
            c.class("plan_with_rejected_call");
        }
        if nmods >= 2 && any_skip && plan.iter().enumerate().any(|(k, (pk, _))| *pk > 0 && rej_c[k].is_none()) {
            c.nontrivial(fnv(&comp_bytes) ^ fnv(format!("{:?}", skips).as_bytes()) ^ fnv(render_plan(&plan).as_bytes()));
        }
        Outcome::Pass
    }
}

fn first_diff_c(want: &[CVisit], got: &[CVisit]) -> String {
    for i in 0..want.len().max(got.len()) {
        if want.get(i) != got.get(i) {
            return format!("visit #{}: expected {:?}, iterator gave {:?} (expected {} visits, got {})", i, want.get(i), got.get(i), want.len(), got.len());
        }
    }
    String::new()
}

fn structural_block_types(flat: &mut dm::Flat, d: &dm::Dec) {
    for v in flat.values_mut() {
        if let Some(i) = v.find("blockty: FuncType(") {
            let start = i + "blockty: FuncType(".len();
            let digits: String = v[start..].chars().take_while(|c| c.is_ascii_digit()).collect();
            if let Ok(n) = digits.parse::<usize>() {
                if let Some(t) = d.types.get(n) {
                    let repl = format!("{}#{}{}", &v[..start], t, &v[start + digits.len()..]);
                    *v = repl;
                }
            }
        }
    }
}

fn shuffle(v: &mut Vec<u32>, t: &mut crate::tape::Tape) {
    for i in (1..v.len()).rev() {
        let j = t.below(i + 1);
        v.swap(i, j);
    }
}
