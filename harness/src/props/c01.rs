//! C01 (unmodified parse-then-encode validates) and C02 (content preserved).
use super::common::*;
use crate::dec::module as dm;
use crate::engine::*;
use crate::gen::{gen_module, Kind, Profile};
use crate::tape::fnv;

pub struct RoundTrip {
    pub content: bool,
}

impl Driver for RoundTrip {
    fn id(&self) -> &'static str {
        if self.content {
            "C02"
        } else {
            "C01"
        }
    }
    fn rule(&self) -> &'static str {
        if self.content {
            "tape -> feature profile -> G-static module (validated with wasmparser before use) -> Module::parse -> encode -> independent decode of input and output, flattened and compared (types, imports, functions, tables, memories, globals, exports, start, elements, data, tags, ordered custom sections, decoded names). Non-trivial: >=1 local function with >=5 instructions or a non-MVP family, AND one of {reference type beyond funcref/externref, NaN-payload constant, name section, custom section, rec group}. Distinct = hash of the input binary."
        } else {
            "tape -> feature profile -> G-static module (validated with wasmparser before use) -> Module::parse -> encode -> wasmparser validation of the output with the same feature set. Non-trivial: >=1 local function with >=5 instructions or >=1 non-MVP family used. Distinct = hash of the input binary."
        }
    }
    fn tape_len(&self) -> usize {
        3072
    }
    fn cases(&self, tier: Tier) -> u64 {
        match tier {
            Tier::Quick => 48_000,
            Tier::Thorough => 1_500_000,
        }
    }
    fn assumptions(&self) -> Vec<&'static str> {
        vec![
            "wasmparser 0.235 validator (WasmFeatures::all) is the validity oracle for input and output",
            "the generator covers the feature families listed in DESIGN 3.2; stack switching, custom page sizes, wide arithmetic, legacy exceptions and extended-const are not generated",
        ]
    }
    fn run(&self, c: &mut Case) -> Outcome {
        // one case in twelve: a valid module from the repository's own test inputs
        if c.t.chance(1, 12) {
            return self.run_corpus(c);
        }
        let mut profile = Profile::from_tape(&mut c.t);
        if !profile.any_non_mvp() && c.t.chance(4, 5) {
            // at least one non-MVP family in most cases
            match c.t.below(6) {
                0 => profile.reftypes = true,
                1 => profile.bulk = true,
                2 => profile.simd = true,
                3 => profile.multivalue = true,
                4 => profile.gc = true,
                _ => profile.threads = true,
            }
        }
        let cfg = steer_cfg(c, Kind::Static, profile);
        let m = gen_module(&mut c.t, &cfg);
        let bytes = m.encode();
        if let Err(e) = dm::validate(&bytes) {
            c.gen_invalid();
            c.note(|| format!("GENERATOR BUG: {}\n{}", e, dm::print_wat(&bytes)));
            return Outcome::Discard("generator produced an invalid module");
        }
        let n_mems = m.n_mem_imports() + m.mems.len();
        let mm = n_mems > 1 || c.t.bool();
        for f in &m.features_used {
            c.class(&format!("family:{}", f));
        }
        c.class(if mm { "multi_memory_flag:on" } else { "multi_memory_flag:off" });
        c.class(&format!("funcs:{}", m.funcs.len().min(5)));
        c.note(|| format!("profile {:?} multi_memory={}\n{}", profile.names(), mm, dm::print_wat(&bytes)));

        let mut module = match lib_parse(&bytes, mm) {
            Ok(m) => m,
            Err(o) => return o,
        };
        let out = match lib_encode(&mut module) {
            Ok(b) => b,
            Err(o) => return o,
        };
        let big = m.funcs.iter().any(|f| f.body.len() >= 5);
        let nontrivial1 = big || !m.features_used.is_empty();
        if !self.content {
            if let Err(e) = dm::validate(&out) {
                let trig = if m.uses_exnref() { " [input uses exnref]" } else { "" };
                return fail(
                    format!("invalid-output:{}{}", crate::capture::mask(&strip_offset(&e), 60), trig),
                    format!("output does not validate: {}", e),
                );
            }
            if nontrivial1 {
                c.nontrivial(fnv(&bytes));
            }
            return Outcome::Pass;
        }
        // C02: content comparison on the independently decoded forms
        let din = match dm::decode(&bytes) {
            Ok(d) => d,
            Err(e) => {
                c.gen_invalid();
                return fail("harness:decode-input", e);
            }
        };
        let dout = match dm::decode(&out) {
            Ok(d) => d,
            Err(e) => return fail(format!("undecodable-output:{}", crate::capture::mask(&e, 50)), e),
        };
        let opts = dm::FlatOpts { by_identity: false, include_names: true, include_customs: true };
        let a = dm::flatten(&din, &dm::Ids::trivial(&din), &opts);
        let b = dm::flatten(&dout, &dm::Ids::trivial(&dout), &opts);
        if let Some((path, l, r)) = dm::first_diff(&a, &b) {
            let trig = if m.uses_exnref() && (l.contains("exn") || r.contains("exn")) { " [exnref]" } else { "" };
            return fail(format!("content:{}{}", dm::path_class(&path), trig), format!("{}: input {:?} / output {:?}", path, l, r));
        }
        let special = m.features_used.iter().any(|f| *f == "gc" || *f == "exn")
            || din.names.present
            || !din.customs.is_empty()
            || m.groups.iter().any(|g| g.explicit)
            || has_nan_const(&din);
        c.class(if din.names.present { "names:yes" } else { "names:no" });
        if !din.customs.is_empty() {
            c.class("customs:yes");
        }
        if m.groups.iter().any(|g| g.explicit) {
            c.class("recgroup:explicit");
        }
        if has_nan_const(&din) {
            c.class("nan_payload_const");
        }
        if nontrivial1 && special {
            c.nontrivial(fnv(&bytes));
        }
        Outcome::Pass
    }
}

impl RoundTrip {
    fn run_corpus(&self, c: &mut Case) -> Outcome {
        let corpus = crate::corpus::modules();
        if corpus.is_empty() {
            return Outcome::Discard("no corpus");
        }
        let (name, bytes) = c.t.pick(corpus);
        let din = match dm::decode(bytes) {
            Ok(d) => d,
            Err(_) => return Outcome::Discard("corpus module outside the decoder's subset"),
        };
        // the IR has no representation for extended constant expressions (property text)
        let extended = din.globals.iter().any(|g| g.init.len() > 1) || din.elems.iter().any(|e| e.offset.len() > 1) || din.datas.iter().any(|d| d.offset.len() > 1);
        if extended {
            return Outcome::Discard("corpus module uses extended constant expressions");
        }
        c.class("origin:corpus");
        c.note(|| format!("corpus module {}\n{}", name, dm::print_wat(bytes)));
        let mut module = match lib_parse(bytes, true) {
            Ok(m) => m,
            Err(o) => return o,
        };
        let out = match lib_encode(&mut module) {
            Ok(b) => b,
            Err(o) => return o,
        };
        if !self.content {
            if let Err(e) = dm::validate(&out) {
                return fail(format!("invalid-output:{}", crate::capture::mask(&strip_offset(&e), 60)), format!("output does not validate: {}", e));
            }
        } else {
            let dout = match dm::decode(&out) {
                Ok(d) => d,
                Err(e) => return fail(format!("undecodable-output:{}", crate::capture::mask(&e, 50)), e),
            };
            let opts = dm::FlatOpts { by_identity: false, include_names: true, include_customs: true };
            let a = dm::flatten(&din, &dm::Ids::trivial(&din), &opts);
            let b = dm::flatten(&dout, &dm::Ids::trivial(&dout), &opts);
            if let Some((path, l, r)) = dm::first_diff(&a, &b) {
                return fail(format!("content:{}", dm::path_class(&path)), format!("{}: input {:?} / output {:?}", path, l, r));
            }
        }
        if din.funcs.iter().any(|f| f.ops.len() >= 5) {
            c.nontrivial(fnv(bytes));
        }
        Outcome::Pass
    }
}

fn strip_offset(e: &str) -> String {
    // "… (at offset 0x4d)" varies with the input
    match e.find(" (at offset") {
        Some(i) => e[..i].to_string(),
        None => e.to_string(),
    }
}

fn has_nan_const(d: &dm::Dec) -> bool {
    d.funcs.iter().any(|f| {
        f.ops.iter().any(|o| {
            if let Some(rest) = o.strip_prefix("F32Const { value: Ieee32(") {
                rest.trim_end_matches(") }").parse::<u32>().map(|b| f32::from_bits(b).is_nan()).unwrap_or(false)
            } else if let Some(rest) = o.strip_prefix("F64Const { value: Ieee64(") {
                rest.trim_end_matches(") }").parse::<u64>().map(|b| f64::from_bits(b).is_nan()).unwrap_or(false)
            } else {
                false
            }
        })
    })
}
