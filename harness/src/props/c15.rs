//! C15 (before/after/alternate lowered exactly), C21 (block alternate), C22 (special modes
//! are never silently lost).
use super::common::*;
use super::instr::*;
use crate::capture::mask;
use crate::dec::module as dm;
use crate::engine::*;
use crate::gen::{gen_module, Kind, Profile};
use crate::tape::fnv;
use std::collections::BTreeSet;

fn gen_base(c: &mut Case) -> Option<(crate::gen::GModule, Vec<u8>, dm::Dec)> {
    let mut profile = Profile::from_tape(&mut c.t);
    // structured control flow everywhere; exotic families now and then
    profile.gc = profile.gc && c.t.bool();
    let mut cfg = steer_cfg(c, Kind::Static, profile);
    cfg.max_funcs = 3;
    cfg.min_funcs = 1;
    cfg.max_stmts = 5;
    let m = gen_module(&mut c.t, &cfg);
    let bytes = m.encode();
    if let Err(e) = dm::validate(&bytes) {
        c.gen_invalid();
        c.note(|| format!("GENERATOR BUG: {}\n{}", e, dm::print_wat(&bytes)));
        return None;
    }
    let d = dm::decode(&bytes).ok()?;
    Some((m, bytes, d))
}

fn local_funcs(d: &dm::Dec) -> Vec<u32> {
    (0..d.funcs.len() as u32).filter(|i| d.funcs[*i as usize].import.is_none()).collect()
}

fn pick_path(c: &mut Case, component: bool, allow_mod_inject_at: bool) -> Path {
    loop {
        let p = if component {
            *c.t.pick(&[Path::CompCur, Path::CompInjectAt, Path::ModAt, Path::IterCur])
        } else {
            *c.t.pick(&[Path::IterCur, Path::IterInjectAt, Path::ModAt, Path::ModInjectAt])
        };
        if p == Path::ModInjectAt && !allow_mod_inject_at {
            continue;
        }
        return p;
    }
}

fn is_structural(op: &str) -> bool {
    matches!(dm::op_name(op), "Block" | "Loop" | "If" | "Else" | "End" | "TryTable" | "Try" | "Catch" | "CatchAll" | "Delegate")
}

fn compare_bodies(c: &mut Case, din: &dm::Dec, out: &[u8], plan: &[Inj], what: &str) -> Result<dm::Dec, Outcome> {
    let dout = match dm::decode(out) {
        Ok(d) => d,
        Err(e) => {
            c.note(|| format!("OUTPUT undecodable: {}", e));
            return Err(fail(format!("undecodable-output:{}", mask(e.split(" (at offset").next().unwrap_or(&e), 40)), e));
        }
    };
    let mut want = din.clone();
    for f in local_funcs(din) {
        let fp: Vec<&Inj> = plan.iter().filter(|i| i.func == f).collect();
        if !fp.is_empty() {
            want.funcs[f as usize].ops = reference_lowering(&din.funcs[f as usize].ops, &fp);
        }
    }
    let opts = dm::FlatOpts { by_identity: false, include_names: true, include_customs: true };
    let a = dm::flatten(&want, &dm::Ids::trivial(&want), &opts);
    let b = dm::flatten(&dout, &dm::Ids::trivial(&dout), &opts);
    let diffs = dm::all_diffs(&a, &b, 12);
    if !diffs.is_empty() {
        c.note(|| format!("OUTPUT\n{}", dm::print_wat(out)));
        return Err(Outcome::FailMany(
            diffs
                .iter()
                .map(|(k, e, o)| Fail { sig: format!("{}:{}", what, dm::path_class(k)), detail: format!("{}: expected {:?}, output has {:?}", k, e, o) })
                .collect(),
        ));
    }
    Ok(dout)
}

fn render_plan(plan: &[Inj]) -> String {
    plan.iter()
        .map(|i| format!("  func {} instr {} {} via {} marker {}", i.func, i.instr, i.mode.name(), i.path.name(), i.marker))
        .collect::<Vec<_>>()
        .join("\n")
}

// ------------------------------------------------------------------------------------ C15
pub struct PlainLowering;

impl Driver for PlainLowering {
    fn id(&self) -> &'static str {
        "C15"
    }
    fn rule(&self) -> &'static str {
        "tape -> valid G-static module -> plan of 1-8 injections on any instruction of any local function: before / after / alternate / removal (alternate and removal only on non-structural instructions, so that the body stays decodable), several per site, each with a unique `i32.const marker; drop` payload, each through one of ModuleIterator (current location), ModuleIterator::inject_at, FunctionModifier (*_at + inject), FunctionModifier::inject_at, or - with the module wrapped in a component - ComponentIterator and ComponentIterator::inject_at -> encode -> the decoded body of every function must equal the reference lowering (before-code, replacement or instruction, after-code; at the final end only before-code) and nothing else may change; plans without alternates must also validate. Non-trivial: >=2 sites, a site with two modes, and a site at a function's final end. Distinct = hash(module, plan)."
    }
    fn tape_len(&self) -> usize {
        3072
    }
    fn cases(&self, tier: Tier) -> u64 {
        match tier {
            Tier::Quick => 40_000,
            Tier::Thorough => 2_000_000,
        }
    }
    fn assumptions(&self) -> Vec<&'static str> {
        vec!["the reference lowering is a 60-line harness function written from the wording of C15/C21", "wasmparser decoder (structure-checking operator reader)"]
    }
    fn run(&self, c: &mut Case) -> Outcome {
        let Some((_gm, bytes, din)) = gen_base(c) else { return Outcome::Discard("generator produced an invalid module") };
        let lf = local_funcs(&din);
        if lf.is_empty() {
            return Outcome::Discard("no local function");
        }
        let component = c.t.chance(1, 4);
        let n = c.t.range(1, 8);
        let mut plan: Vec<Inj> = vec![];
        let mut sites: BTreeSet<(u32, usize)> = BTreeSet::new();
        let mut final_end_site = false;
        let mut marker = 1000;
        for _ in 0..n {
            // revisit an existing site half of the time (several injections per site)
            let (f, at) = if !sites.is_empty() && c.t.bool() {
                let v: Vec<_> = sites.iter().copied().collect();
                *c.t.pick(&v)
            } else {
                let f = *c.t.pick(&lf);
                let nops = din.funcs[f as usize].ops.len();
                let at = if c.t.chance(1, 4) { nops - 1 } else { c.t.below(nops) };
                (f, at)
            };
            let ops = &din.funcs[f as usize].ops;
            let mut mode = *c.t.pick(&[IMode::Before, IMode::Before, IMode::After, IMode::After, IMode::Alt, IMode::EmptyAlt]);
            if matches!(mode, IMode::Alt | IMode::EmptyAlt) && is_structural(&ops[at]) && at + 1 != ops.len() {
                mode = IMode::Before;
            }
            if at + 1 == ops.len() {
                final_end_site = true;
            }
            marker += 1;
            sites.insert((f, at));
            let path = pick_path(c, component, true);
            plan.push(Inj { func: f, instr: at, mode, path, payload: if mode == IMode::EmptyAlt { vec![] } else { marker_payload(marker) }, marker });
        }
        order_plan(&mut plan);
        c.note(|| format!("MODULE (component wrapper: {})\n{}\nPLAN\n{}", component, dm::print_wat(&bytes), render_plan(&plan)));
        let ap = match run_plan(&bytes, &plan, true) {
            Ok(a) => a,
            Err(o) => return o,
        };
        if let Some((i, msg)) = ap.rejected.iter().enumerate().find_map(|(i, r)| r.as_ref().map(|m| (i, m.clone()))) {
            return fail(
                format!("plain-injection-rejected:{}:{}", plan[i].mode.name(), plan[i].path.name()),
                format!("injection {:?} panicked at the call: {}", plan[i], msg),
            );
        }
        if let Err(o) = compare_bodies(c, &din, &ap.out, &plan, "lowering") {
            return o;
        }
        if !plan.iter().any(|i| matches!(i.mode, IMode::Alt | IMode::EmptyAlt)) {
            if let Err(e) = dm::validate(&ap.out) {
                return fail(format!("invalid-output:{}", mask(e.split(" (at offset").next().unwrap_or(&e), 50)), e);
            }
        }
        for i in &plan {
            c.class(&format!("path:{}", i.path.name()));
            c.class(&format!("mode:{}", i.mode.name()));
        }
        let two_modes = sites.iter().any(|s| {
            let ms: BTreeSet<&str> = plan.iter().filter(|i| (i.func, i.instr) == *s).map(|i| i.mode.name()).collect();
            ms.len() >= 2
        });
        if final_end_site {
            c.class("site:final_end");
        }
        if sites.len() >= 2 && two_modes && final_end_site {
            c.nontrivial(fnv(&bytes) ^ fnv(render_plan(&plan).as_bytes()));
        }
        Outcome::Pass
    }
}

// ------------------------------------------------------------------------------------ C21
pub struct BlockAlt;

impl Driver for BlockAlt {
    fn id(&self) -> &'static str {
        "C21"
    }
    fn rule(&self) -> &'static str {
        "tape -> valid G-static module with nested block/loop/if/else -> 1-4 block-alternate injections (replacement payload or empty) on block / loop / if / else sites whose regions are disjoint or - one time in two - nested inside one another (the inner request then has no effect of its own, the outer construct must still vanish completely), plus 0-4 before/after injections on instructions outside every replaced region, through every API path that accepts special modes -> encode -> decoded bodies must equal the reference lowering: construct removed from its opening instruction through its matching end and the replacement emitted there; for an else: the else keyword and the else-arm removed, the replacement emitted where the else stood, the end kept; everything else unchanged. Non-trivial: a replaced construct contains a nested construct, or an else is replaced. Distinct = hash(module, plan)."
    }
    fn tape_len(&self) -> usize {
        3072
    }
    fn cases(&self, tier: Tier) -> u64 {
        match tier {
            Tier::Quick => 40_000,
            Tier::Thorough => 2_000_000,
        }
    }
    fn run(&self, c: &mut Case) -> Outcome {
        let mut base = None;
        for _ in 0..4 {
            let Some(b) = gen_base(c) else { return Outcome::Discard("generator produced an invalid module") };
            let has = local_funcs(&b.2).iter().any(|f| b.2.funcs[*f as usize].ops.iter().any(|o| matches!(dm::op_name(o), "Block" | "Loop" | "If")));
            base = Some(b);
            if has {
                break;
            }
        }
        let (_gm, bytes, din) = base.unwrap();
        let lf = local_funcs(&din);
        // candidate constructs
        let mut cands: Vec<(u32, usize, usize, bool, bool)> = vec![]; // (func, open/else idx, end idx, is_else, has nested)
        for f in &lf {
            let ops = &din.funcs[*f as usize].ops;
            let st = structure(ops);
            for (o, e) in &st.end_of {
                if matches!(dm::op_name(&ops[*o]), "Block" | "Loop" | "If") {
                    let nested = (o + 1..*e).any(|i| is_open(&ops[i]));
                    cands.push((*f, *o, *e, false, nested));
                }
            }
            for (el, (_, e)) in &st.if_of_else {
                let nested = (el + 1..*e).any(|i| is_open(&ops[i]));
                cands.push((*f, *el, *e, true, nested));
            }
        }
        if cands.is_empty() {
            return Outcome::Discard("no block-like construct");
        }
        let component = c.t.chance(1, 4);
        let mod_inject_at_ok = true;
        let mut plan: Vec<Inj> = vec![];
        let mut regions: Vec<(u32, usize, usize)> = vec![];
        let mut marker = 2000;
        let mut nt = false;
        let mut nested_regions = false;
        let n = c.t.range(1, 4);
        for _ in 0..n {
            let (f, o, e, is_else, nested) = *c.t.pick(&cands);
            // regions must not overlap or nest (an else region covers else..end-1; if/else share the if's end)
            let (lo, hi) = if is_else { (o, e) } else { (o, e) };
            // Regions of well-nested constructs either are disjoint or contain one another.  A
            // block-alternate inside a construct that is itself replaced has no effect of its own
            // (its construct is gone), but the outer construct must still be removed from its
            // opening instruction through its matching end: generated one time in two.
            if regions.iter().any(|(rf, a, b)| *rf == f && !(hi < *a || lo > *b)) {
                if regions.iter().any(|(rf, a, b)| *rf == f && *a == lo && *b == hi) || !c.t.bool() {
                    continue;
                }
                c.class("nested_block_alt_regions");
                nested_regions = true;
                nt = true;
            }
            // replacing an `if` whose else is replaced as well would overlap: covered by the check above
            regions.push((f, lo, hi));
            marker += 1;
            let empty = c.t.chance(1, 3);
            let mut path = pick_path(c, component, mod_inject_at_ok);
            if path == Path::ModInjectAt && !mod_inject_at_ok {
                path = Path::ModAt;
            }
            plan.push(Inj {
                func: f,
                instr: o,
                mode: if empty { IMode::EmptyBlockAlt } else { IMode::BlockAlt },
                path,
                payload: if empty { vec![] } else { marker_payload(marker) },
                marker,
            });
            c.class(if is_else { "replaced:else" } else { "replaced:construct" });
            c.class(if empty { "replacement:empty" } else { "replacement:code" });
            if nested || is_else {
                nt = true;
            }
        }
        // plain injections outside the replaced regions
        let extra = c.t.below(5);
        for _ in 0..extra {
            let f = *c.t.pick(&lf);
            let nops = din.funcs[f as usize].ops.len();
            let at = c.t.below(nops);
            if regions.iter().any(|(rf, a, b)| *rf == f && at >= *a && at <= *b) {
                continue;
            }
            marker += 1;
            let mode = if c.t.bool() { IMode::Before } else { IMode::After };
            let path = pick_path(c, component, true);
            plan.push(Inj { func: f, instr: at, mode, path, payload: marker_payload(marker), marker });
        }
        order_plan(&mut plan);
        c.note(|| format!("MODULE (component wrapper: {})\n{}\nPLAN\n{}", component, dm::print_wat(&bytes), render_plan(&plan)));
        let ap = match run_plan(&bytes, &plan, true) {
            Ok(a) => a,
            Err(o) => return o,
        };
        if let Some((i, msg)) = ap.rejected.iter().enumerate().find_map(|(i, r)| r.as_ref().map(|m| (i, m.clone()))) {
            return fail(
                format!("block-alt-rejected:{}:{}", plan[i].mode.name(), plan[i].path.name()),
                format!("injection {:?} panicked at the call: {}", plan[i], msg),
            );
        }
        if let Err(o) = compare_bodies(c, &din, &ap.out, &plan, "block-alt") {
            return o;
        }
        // the library reports an unresolved inner request with a log line; the statement says
        // nothing about requests inside a removed region, so the log is only an oracle signal
        // for plans without nesting
        if !nested_regions && ap.logs.iter().any(|(_, m)| m.starts_with("BUG")) {
            return fail("bug-log", format!("{:?}", ap.logs));
        }
        for i in &plan {
            c.class(&format!("path:{}", i.path.name()));
        }
        if nt {
            c.nontrivial(fnv(&bytes) ^ fnv(render_plan(&plan).as_bytes()));
        }
        Outcome::Pass
    }
}

// ------------------------------------------------------------------------------------ C22
pub struct SpecialNotLost;

fn accepts(mode: IMode, op: &str) -> bool {
    let n = dm::op_name(op);
    let blockish = matches!(n, "Block" | "Loop" | "If" | "Else");
    let branch = matches!(n, "Br" | "BrIf" | "BrTable" | "BrOnCast" | "BrOnCastFail" | "BrOnNull" | "BrOnNonNull");
    match mode {
        IMode::SemAfter => blockish || branch,
        IMode::BlockEntry | IMode::BlockExit | IMode::BlockAlt | IMode::EmptyBlockAlt => blockish,
        _ => true,
    }
}

impl Driver for SpecialNotLost {
    fn id(&self) -> &'static str {
        "C22"
    }
    fn rule(&self) -> &'static str {
        "tape -> valid G-static module -> 1-6 special-mode injections (semantic-after, block-entry, block-exit, block-alternate, empty block-alternate, function entry, function exit) with unique marker payloads on random instructions - two thirds on instructions of the kind the mode is documented for, one third anywhere - through every API path (iterators at the current location, inject_at on ModuleIterator / ComponentIterator / FunctionModifier, FunctionModifier *_at + inject, empty_block_alt(_at), function-level modes); block-alternate regions do not contain other injections -> encode. Oracle: every injection either panicked at the call (rejected) or its marker occurs in the decoded output (block-alternate: the construct's opening instruction is gone and, if non-empty, the marker is present); no `BUG:` error is logged during encode. Non-trivial: >=1 accepted special injection. Classes: path x mode matrix. Distinct = hash(module, plan)."
    }
    fn tape_len(&self) -> usize {
        3072
    }
    fn cases(&self, tier: Tier) -> u64 {
        match tier {
            Tier::Quick => 40_000,
            Tier::Thorough => 2_000_000,
        }
    }
    fn run(&self, c: &mut Case) -> Outcome {
        let Some((_gm, bytes, din)) = gen_base(c) else { return Outcome::Discard("generator produced an invalid module") };
        let lf = local_funcs(&din);
        if lf.is_empty() {
            return Outcome::Discard("no local function");
        }
        let component = c.t.chance(1, 4);
        let n = c.t.range(1, 6);
        let mut plan: Vec<Inj> = vec![];
        let mut regions: Vec<(u32, usize, usize)> = vec![];
        let mut used: BTreeSet<(u32, usize)> = BTreeSet::new();
        let mut marker = 3000;
        let mut triggers: Vec<&'static str> = vec![];
        let mut trigger_markers: BTreeSet<i32> = BTreeSet::new();
        for _ in 0..n {
            let f = *c.t.pick(&lf);
            let ops = &din.funcs[f as usize].ops;
            let st = structure(ops);
            let mode = *c.t.pick(&[IMode::SemAfter, IMode::BlockEntry, IMode::BlockExit, IMode::BlockAlt, IMode::EmptyBlockAlt, IMode::FuncEntry, IMode::FuncExit, IMode::SemAfter]);
            let fitting: Vec<usize> = (0..ops.len()).filter(|i| accepts(mode, &ops[*i])).collect();
            let at = if !fitting.is_empty() && c.t.chance(2, 3) { *c.t.pick(&fitting) } else { c.t.below(ops.len()) };
            if mode.is_func_level() && plan.iter().any(|i| i.func == f && i.mode == mode) {
                continue;
            }
            if !mode.is_func_level() {
                if regions.iter().any(|(rf, a, b)| *rf == f && at >= *a && at <= *b) || used.contains(&(f, at)) {
                    continue;
                }
                if matches!(mode, IMode::BlockAlt | IMode::EmptyBlockAlt) && accepts(mode, &ops[at]) {
                    let end = if dm::op_name(&ops[at]) == "Else" { st.if_of_else.get(&at).map(|x| x.1) } else { st.end_of.get(&at).copied() };
                    let Some(end) = end else { continue };
                    if plan.iter().any(|i| i.func == f && !i.mode.is_func_level() && i.instr >= at && i.instr <= end) {
                        continue;
                    }
                    // an if whose else carries instrumentation: keep regions disjoint
                    regions.push((f, at, end));
                }
                used.insert((f, at));
            }
            marker += 1;
            let path = pick_path(c, component, true);
            // semantic-after on a branch that targets the function body
            if mode == IMode::SemAfter && accepts(mode, &ops[at]) && dm::op_name(&ops[at]).starts_with("Br") {
                let depth = st.depth[at];
                let targets_fn = branch_depths(&ops[at]).iter().any(|d| *d as usize == depth);
                if targets_fn {
                    if c.avoid("semantic_after_branch_to_function_label") {
                        c.steered("semantic_after_branch_to_function_label");
                        continue;
                    }
                    triggers.push("semantic_after_branch_to_function_label");
                    trigger_markers.insert(marker);
                }
            }
            plan.push(Inj { func: f, instr: at, mode, path, payload: if mode == IMode::EmptyBlockAlt { vec![] } else { marker_payload(marker) }, marker });
        }
        if plan.is_empty() {
            return Outcome::Discard("empty plan");
        }
        order_plan(&mut plan);
        // one time in three (module paths only) the function index space is re-indexed before
        // the plan is applied: an import is added, or a function import is replaced by a built
        // function.  The caller's FunctionIDs stay valid; the markers are then looked for by
        // content, not by index.
        let mut pre: Vec<PreEdit> = vec![];
        if !component && !plan.iter().any(|i| i.path.is_component()) && c.t.chance(1, 3) {
            let void_ty = din.types.iter().position(|t| t.contains("params: [], results: []") && t.contains("is_final: true"));
            let fimps: Vec<(u32, u32)> = {
                // (ImportsID, function index) of the function imports
                let mut v = vec![];
                let mut fi = 0u32;
                for (k, (_, _, ty)) in din.imports.iter().enumerate() {
                    if ty.starts_with("func") || ty.starts_with("Func") {
                        v.push((k as u32, fi));
                        fi += 1;
                    }
                }
                v
            };
            if c.t.bool() || fimps.is_empty() {
                if let Some(t) = void_ty {
                    pre.push(PreEdit::AddImportFunc(t as u32));
                    c.class("pre_edit:add_import_func");
                }
            } else {
                let (imp, fidx) = *c.t.pick(&fimps);
                if let Some((p, r)) = simple_sig(&_gm, fidx) {
                    pre.push(PreEdit::ReplaceImport(imp, p, r));
                    c.class("pre_edit:replace_import");
                }
            }
        }
        c.note(|| format!("MODULE (component wrapper: {})\n{}\nPRE-EDITS {:?}\nPLAN\n{}", component, dm::print_wat(&bytes), pre, render_plan(&plan)));
        let ap = match run_plan_edit(&bytes, &plan, true, 1, &pre) {
            Ok(a) => a,
            Err(o) => return by_trigger(&triggers, o),
        };
        let dout = match dm::decode(&ap.out) {
            Ok(d) => d,
            Err(e) => return by_trigger(&triggers, fail(format!("undecodable-output:{}", mask(e.split(" (at offset").next().unwrap_or(&e), 40)), e)),
        };
        let mut fails = vec![];
        let mut accepted = 0;
        for (k, inj) in plan.iter().enumerate() {
            let key = format!("{}:{}", inj.mode.name(), inj.path.name());
            if let Some(msg) = &ap.rejected[k] {
                c.class(&format!("rejected:{}", key));
                // documented rejection: a mode on an instruction it does not apply to
                let ops = &din.funcs[inj.func as usize].ops;
                if accepts(inj.mode, &ops[inj.instr]) && !msg.starts_with("harness:") {
                    fails.push(Fail { sig: format!("rejected-although-applicable:{}", key), detail: format!("{:?} on {} panicked: {}", inj, ops[inj.instr], msg) });
                }
                continue;
            }
            accepted += 1;
            c.class(&format!("accepted:{}", key));
            let needle = format!("I32Const {{ value: {} }}", inj.marker);
            // after a pre-edit the function sits at another index: find it by its markers
            let shifted: Option<&Vec<String>> = if pre.is_empty() { None } else { dout.funcs.iter().map(|f| &f.ops).find(|ops| ops.iter().any(|o| *o == needle)) };
            let empty: Vec<String> = vec![];
            let out_ops: &Vec<String> = if pre.is_empty() { &dout.funcs[inj.func as usize].ops } else { shifted.unwrap_or(&empty) };
            let present = out_ops.iter().any(|o| *o == needle);
            let ok = match inj.mode {
                // (after a pre-edit an empty replacement leaves no marker to find the function by)
                IMode::EmptyBlockAlt if !pre.is_empty() => true,
                IMode::BlockAlt if !pre.is_empty() => present,
                IMode::EmptyBlockAlt => construct_gone(&din.funcs[inj.func as usize].ops, out_ops, inj.instr, &plan, inj.func),
                IMode::BlockAlt => present && construct_gone(&din.funcs[inj.func as usize].ops, out_ops, inj.instr, &plan, inj.func),
                _ => present,
            };
            if !ok {
                fails.push(Fail {
                    sig: if trigger_markers.contains(&inj.marker) { "class:semantic_after_branch_to_function_label".to_string() } else { format!("accepted-but-lost:{}", key) },
                    detail: format!("{:?} on `{}` was accepted but is not reflected in the output", inj, din.funcs[inj.func as usize].ops[inj.instr]),
                });
            }
        }
        if let Some((_, m)) = ap.logs.iter().find(|(_, m)| m.starts_with("BUG")) {
            fails.push(Fail { sig: format!("bug-log:{}", mask(m, 40)), detail: m.clone() });
        }
        if !fails.is_empty() {
            c.note(|| format!("OUTPUT\n{}", dm::print_wat(&ap.out)));
            return Outcome::FailMany(fails);
        }
        if accepted >= 1 {
            c.nontrivial(fnv(&bytes) ^ fnv(render_plan(&plan).as_bytes()));
        }
        Outcome::Pass
    }
}

fn by_trigger(tr: &[&'static str], o: Outcome) -> Outcome {
    let Some(t) = tr.first() else { return o };
    let wrap = |f: Fail| Fail { sig: format!("class:{}", t), detail: format!("[{}] {}", f.sig, f.detail) };
    match o {
        Outcome::Fail(f) => Outcome::Fail(wrap(f)),
        Outcome::FailMany(v) => Outcome::Fail(wrap(v.into_iter().next().unwrap())),
        other => other,
    }
}

/// relative depths named by a branch instruction (Debug text)
pub fn branch_depths(op: &str) -> Vec<u32> {
    let mut v = vec![];
    for key in ["relative_depth: ", "default: "] {
        let mut rest = op;
        while let Some(i) = rest.find(key) {
            let s = &rest[i + key.len()..];
            let num: String = s.chars().take_while(|c| c.is_ascii_digit()).collect();
            if let Ok(n) = num.parse() {
                v.push(n);
            }
            rest = &s[num.len()..];
        }
    }
    if let Some(i) = op.find("targets: [") {
        let s = &op[i + 10..];
        let inner = s.split(']').next().unwrap_or("");
        for t in inner.split(',') {
            if let Ok(n) = t.trim().parse() {
                v.push(n);
            }
        }
    }
    v
}

/// Did the construct opened at `at` disappear?  The count of opening instructions of its kind
/// must have dropped by one, allowing for instructions the lowering itself adds (`block` for a
/// function-exit wrapper; `if`/`else` for flagged semantic-after bodies, in which case the
/// count is not a usable signal and the check is skipped).
fn construct_gone(input: &[String], output: &[String], at: usize, plan: &[Inj], func: u32) -> bool {
    let kind = dm::op_name(&input[at]).to_string();
    let cnt = |ops: &[String]| ops.iter().filter(|o| dm::op_name(o) == kind).count();
    let exit_wrappers = plan.iter().filter(|p| p.func == func && p.mode == IMode::FuncExit).count();
    let flagged = plan.iter().any(|p| p.func == func && p.mode == IMode::SemAfter && dm::op_name(&input[p.instr]).starts_with("Br"));
    // other block-alternates of the same kind in this function remove their own opening instruction
    let same_kind_removed = plan
        .iter()
        .filter(|p| p.func == func && matches!(p.mode, IMode::BlockAlt | IMode::EmptyBlockAlt) && dm::op_name(&input[p.instr]) == kind)
        .count();
    match kind.as_str() {
        "Block" => cnt(output) + same_kind_removed <= cnt(input) + exit_wrappers,
        "If" | "Else" if flagged => true,
        _ => cnt(output) + same_kind_removed <= cnt(input),
    }
}

/// parameter / result types of function `fidx` if they are plain numeric types (what the
/// FunctionBuilder of a replacement needs)
fn simple_sig(gm: &crate::gen::GModule, fidx: u32) -> Option<(Vec<wirm::DataType>, Vec<wirm::DataType>)> {
    let mut k = 0u32;
    for imp in &gm.imports {
        if let crate::gen::GImportKind::Func(ty) = &imp.kind {
            if k == fidx {
                if !gm.types[*ty as usize].is_final || gm.types[*ty as usize].supertype.is_some() {
                    return None;
                }
                if let crate::gen::GComposite::Func { params, results } = &gm.types[*ty as usize].comp {
                    if params.iter().chain(results.iter()).all(|v| v.is_num()) {
                        return Some((params.iter().map(|v| super::edit::dt(*v)).collect(), results.iter().map(|v| super::edit::dt(*v)).collect()));
                    }
                }
                return None;
            }
            k += 1;
        }
    }
    None
}
