//! Instrumentation plans: generation, application through every public API path, and the
//! reference lowering used by C15 / C21 (never derived from library output).

use crate::capture::run_lib;
use crate::dec::module as dm;
use crate::engine::*;
use wasmparser::Operator;
use wirm::ir::id::FunctionID;
use wirm::ir::types::InstrumentationMode;
use wirm::iterator::iterator_trait::{IteratingInstrumenter, Iterator as _};
use wirm::opcode::{Inject, InjectAt, Instrumenter};
use wirm::Location;

#[derive(Clone, Copy, Debug, PartialEq, Eq, PartialOrd, Ord, Hash)]
pub enum IMode {
    Before,
    After,
    Alt,
    EmptyAlt,
    SemAfter,
    BlockEntry,
    BlockExit,
    BlockAlt,
    EmptyBlockAlt,
    FuncEntry,
    FuncExit,
}
impl IMode {
    pub fn name(self) -> &'static str {
        match self {
            IMode::Before => "before",
            IMode::After => "after",
            IMode::Alt => "alternate",
            IMode::EmptyAlt => "empty_alternate",
            IMode::SemAfter => "semantic_after",
            IMode::BlockEntry => "block_entry",
            IMode::BlockExit => "block_exit",
            IMode::BlockAlt => "block_alt",
            IMode::EmptyBlockAlt => "empty_block_alt",
            IMode::FuncEntry => "func_entry",
            IMode::FuncExit => "func_exit",
        }
    }
    pub fn is_special(self) -> bool {
        !matches!(self, IMode::Before | IMode::After | IMode::Alt | IMode::EmptyAlt)
    }
    pub fn is_func_level(self) -> bool {
        matches!(self, IMode::FuncEntry | IMode::FuncExit)
    }
    pub fn lib(self) -> Option<InstrumentationMode> {
        Some(match self {
            IMode::Before => InstrumentationMode::Before,
            IMode::After => InstrumentationMode::After,
            IMode::Alt => InstrumentationMode::Alternate,
            IMode::SemAfter => InstrumentationMode::SemanticAfter,
            IMode::BlockEntry => InstrumentationMode::BlockEntry,
            IMode::BlockExit => InstrumentationMode::BlockExit,
            IMode::BlockAlt => InstrumentationMode::BlockAlt,
            _ => return None,
        })
    }
}

#[derive(Clone, Copy, Debug, PartialEq, Eq, PartialOrd, Ord, Hash)]
pub enum Path {
    /// ModuleIterator positioned at the location: before()/after()/… then inject
    IterCur,
    /// ModuleIterator::inject_at(idx, mode, op) from somewhere in the same function
    IterInjectAt,
    /// FunctionModifier: *_at(loc) then inject
    ModAt,
    /// FunctionModifier::inject_at(idx, mode, op)
    ModInjectAt,
    /// ComponentIterator positioned at the location
    CompCur,
    /// ComponentIterator::inject_at
    CompInjectAt,
}
impl Path {
    pub fn name(self) -> &'static str {
        match self {
            Path::IterCur => "ModuleIterator",
            Path::IterInjectAt => "ModuleIterator::inject_at",
            Path::ModAt => "FunctionModifier",
            Path::ModInjectAt => "FunctionModifier::inject_at",
            Path::CompCur => "ComponentIterator",
            Path::CompInjectAt => "ComponentIterator::inject_at",
        }
    }
    pub fn is_component(self) -> bool {
        matches!(self, Path::CompCur | Path::CompInjectAt)
    }
}

#[derive(Clone, Debug)]
pub struct Inj {
    /// function index in the module's index space
    pub func: u32,
    pub instr: usize,
    pub mode: IMode,
    pub path: Path,
    pub payload: Vec<Operator<'static>>,
    pub marker: i32,
}

pub fn marker_payload(marker: i32) -> Vec<Operator<'static>> {
    vec![Operator::I32Const { value: marker }, Operator::Drop]
}

/// Structure of one function body: for every opening instruction the index of its `else`
/// (if any) and of its matching `end`.
#[derive(Clone, Debug, Default)]
pub struct Structure {
    pub end_of: std::collections::BTreeMap<usize, usize>,
    pub else_of: std::collections::BTreeMap<usize, usize>,
    /// for an `else`: (index of its `if`, index of the matching end)
    pub if_of_else: std::collections::BTreeMap<usize, (usize, usize)>,
    /// nesting depth of every instruction (function body = 0)
    pub depth: Vec<usize>,
    /// index of the innermost enclosing opening instruction (None = function level)
    pub parent: Vec<Option<usize>>,
}

pub fn is_open(op: &str) -> bool {
    matches!(dm::op_name(op), "Block" | "Loop" | "If" | "TryTable" | "Try")
}

pub fn structure(ops: &[String]) -> Structure {
    let mut s = Structure::default();
    let mut stack: Vec<usize> = vec![];
    for (i, op) in ops.iter().enumerate() {
        let name = dm::op_name(op);
        match name {
            "End" => {
                s.depth.push(stack.len());
                s.parent.push(stack.last().copied());
                if let Some(o) = stack.pop() {
                    s.end_of.insert(o, i);
                    if let Some(e) = s.else_of.get(&o).copied() {
                        s.if_of_else.insert(e, (o, i));
                    }
                }
                continue;
            }
            "Else" => {
                s.depth.push(stack.len());
                s.parent.push(stack.last().copied());
                if let Some(o) = stack.last() {
                    s.else_of.insert(*o, i);
                }
                continue;
            }
            _ => {}
        }
        s.depth.push(stack.len());
        s.parent.push(stack.last().copied());
        if is_open(op) {
            stack.push(i);
        }
    }
    s
}

/// Apply one injection through its API path on a module.
fn apply_module<'a>(module: &mut wirm::Module<'a>, inj: &Inj) {
    let fid = FunctionID(inj.func);
    let loc = Location::Module { func_idx: fid, instr_idx: inj.instr };
    match inj.path {
        Path::IterCur | Path::IterInjectAt => {
            let mut it = wirm::iterator::module_iterator::ModuleIterator::new(module, &vec![]);
            // walk to the location (IterCur) or to the first instruction of the function
            loop {
                if let (Location::Module { func_idx, instr_idx }, _) = it.curr_loc() {
                    if func_idx == fid && (inj.path == Path::IterInjectAt || inj.mode.is_func_level() || instr_idx == inj.instr) {
                        break;
                    }
                }
                if it.next().is_none() {
                    panic!("harness: iterator never reached function {} instr {}", inj.func, inj.instr);
                }
            }
            match (inj.path, inj.mode) {
                (_, IMode::FuncEntry) => {
                    it.func_entry();
                    for o in &inj.payload {
                        it.inject(o.clone());
                    }
                }
                (_, IMode::FuncExit) => {
                    it.func_exit();
                    for o in &inj.payload {
                        it.inject(o.clone());
                    }
                }
                (Path::IterCur, IMode::EmptyAlt) => {
                    it.empty_alternate();
                }
                (Path::IterCur, IMode::EmptyBlockAlt) => {
                    it.empty_block_alt();
                }
                (Path::IterCur, m) => {
                    match m {
                        IMode::Before => it.before(),
                        IMode::After => it.after(),
                        IMode::Alt => it.alternate(),
                        IMode::SemAfter => it.semantic_after(),
                        IMode::BlockEntry => it.block_entry(),
                        IMode::BlockExit => it.block_exit(),
                        IMode::BlockAlt => it.block_alt(),
                        _ => unreachable!(),
                    };
                    for o in &inj.payload {
                        it.inject(o.clone());
                    }
                }
                (_, IMode::EmptyAlt) => {
                    it.empty_alternate_at(loc);
                }
                (_, IMode::EmptyBlockAlt) => {
                    it.empty_block_alt_at(loc);
                }
                (_, m) => {
                    for o in &inj.payload {
                        it.inject_at(inj.instr, m.lib().unwrap(), o.clone());
                    }
                }
            }
        }
        Path::ModAt | Path::ModInjectAt => {
            let mut fm = module.functions.get_fn_modifier(fid).expect("local function");
            match (inj.path, inj.mode) {
                (_, IMode::FuncEntry) => {
                    fm.func_entry();
                    for o in &inj.payload {
                        fm.inject(o.clone());
                    }
                    fm.finish_instr();
                }
                (_, IMode::FuncExit) => {
                    fm.func_exit();
                    for o in &inj.payload {
                        fm.inject(o.clone());
                    }
                    fm.finish_instr();
                }
                (_, IMode::EmptyAlt) => {
                    fm.empty_alternate_at(loc);
                }
                (_, IMode::EmptyBlockAlt) => {
                    fm.empty_block_alt_at(loc);
                }
                (Path::ModAt, m) => {
                    match m {
                        IMode::Before => fm.before_at(loc),
                        IMode::After => fm.after_at(loc),
                        IMode::Alt => fm.alternate_at(loc),
                        IMode::SemAfter => fm.semantic_after_at(loc),
                        IMode::BlockEntry => fm.block_entry_at(loc),
                        IMode::BlockExit => fm.block_exit_at(loc),
                        IMode::BlockAlt => fm.block_alt_at(loc),
                        _ => unreachable!(),
                    };
                    for o in &inj.payload {
                        fm.inject(o.clone());
                    }
                }
                (_, m) => {
                    for o in &inj.payload {
                        fm.inject_at(inj.instr, m.lib().unwrap(), o.clone());
                    }
                }
            }
        }
        _ => unreachable!(),
    }
}

fn apply_component<'a>(comp: &mut wirm::Component<'a>, mod_idx: u32, inj: &Inj) {
    let fid = FunctionID(inj.func);
    let mut it = wirm::iterator::component_iterator::ComponentIterator::new(comp, std::collections::HashMap::new());
    loop {
        if let (Location::Component { mod_idx: mi, func_idx, instr_idx }, _) = it.curr_loc() {
            if *mi == mod_idx && func_idx == fid && (inj.path == Path::CompInjectAt || inj.mode.is_func_level() || instr_idx == inj.instr) {
                break;
            }
        }
        if it.next().is_none() {
            panic!("harness: component iterator never reached module {} function {} instr {}", mod_idx, inj.func, inj.instr);
        }
    }
    let loc = Location::Component { mod_idx: wirm::ir::id::ModuleID(mod_idx), func_idx: fid, instr_idx: inj.instr };
    match (inj.path, inj.mode) {
        (_, IMode::FuncEntry) => {
            it.func_entry();
            for o in &inj.payload {
                it.inject(o.clone());
            }
        }
        (_, IMode::FuncExit) => {
            it.func_exit();
            for o in &inj.payload {
                it.inject(o.clone());
            }
        }
        (Path::CompCur, IMode::EmptyAlt) => {
            it.empty_alternate();
        }
        (Path::CompCur, IMode::EmptyBlockAlt) => {
            it.empty_block_alt();
        }
        (Path::CompCur, m) => {
            match m {
                IMode::Before => it.before(),
                IMode::After => it.after(),
                IMode::Alt => it.alternate(),
                IMode::SemAfter => it.semantic_after(),
                IMode::BlockEntry => it.block_entry(),
                IMode::BlockExit => it.block_exit(),
                IMode::BlockAlt => it.block_alt(),
                _ => unreachable!(),
            };
            for o in &inj.payload {
                it.inject(o.clone());
            }
        }
        (_, IMode::EmptyAlt) => {
            it.empty_alternate_at(loc);
        }
        (_, IMode::EmptyBlockAlt) => {
            it.empty_block_alt_at(loc);
        }
        (_, m) => {
            for o in &inj.payload {
                it.inject_at(inj.instr, m.lib().unwrap(), o.clone());
            }
        }
    }
}

/// Apply one injection to a module, or to the first module of a component (through the
/// component iterator for the component paths).
pub fn apply_any<'a>(module: Option<&mut wirm::Module<'a>>, comp: Option<&mut wirm::Component<'a>>, inj: &Inj) {
    match (module, comp) {
        (Some(m), _) => apply_module(m, inj),
        (None, Some(c)) => {
            if inj.path.is_component() {
                apply_component(c, 0, inj)
            } else {
                apply_module(&mut c.modules[0], inj)
            }
        }
        _ => {}
    }
}

/// Order a plan so that, per function, instruction-level injections precede function-level
/// ones (the iterators offer no way to leave a function-level mode).
pub fn order_plan(plan: &mut Vec<Inj>) {
    plan.sort_by_key(|i| (i.func, i.mode.is_func_level()));
}

pub struct Applied {
    /// per injection: None = accepted, Some(msg) = rejected at the call (panic)
    pub rejected: Vec<Option<String>>,
    pub out: Vec<u8>,
    pub logs: Vec<(log::Level, String)>,
}

/// Apply a plan to a module (or to the module wrapped in a component when the plan uses the
/// component paths) and encode.  A panic at an injection call is a rejection; a panic in
/// parse/encode is returned as Err.
pub fn run_plan(bytes: &[u8], plan: &[Inj], mm: bool) -> Result<Applied, Outcome> {
    run_plan_n(bytes, plan, mm, 1)
}

/// Like `run_plan`, with `encodes` consecutive encodings; the last output is returned.
pub fn run_plan_n(bytes: &[u8], plan: &[Inj], mm: bool, encodes: usize) -> Result<Applied, Outcome> {
    run_plan_edit(bytes, plan, mm, encodes, &[])
}

/// Index-shifting edits made on the module before the plan is applied (module paths only).
#[derive(Clone, Debug, PartialEq)]
pub enum PreEdit {
    /// add_import_func("pre", "imp<k>", type index): every local function index shifts
    AddImportFunc(u32),
    /// replace the function import with this ImportsID by a built function whose body is `unreachable`
    ReplaceImport(u32, Vec<wirm::DataType>, Vec<wirm::DataType>),
}

/// `run_plan_n` with edits that re-index the function space before the plan is applied.
pub fn run_plan_edit(bytes: &[u8], plan: &[Inj], mm: bool, encodes: usize, pre: &[PreEdit]) -> Result<Applied, Outcome> {
    let component = plan.iter().any(|i| i.path.is_component());
    let mut rejected = vec![];
    crate::capture::clear_logs();
    if component {
        let comp_bytes = super::c03::wrap_component(bytes, false, 1);
        let mut comp = match run_lib(|| wirm::Component::parse(&comp_bytes, mm)) {
            Ok(Ok(c)) => c,
            Ok(Err(e)) => return Err(fail("component-parse-err", format!("{:?}", e))),
            Err(p) => return Err(super::common::panic_fail("component-parse", &p)),
        };
        for inj in plan {
            let r = run_lib(|| {
                if inj.path.is_component() {
                    apply_component(&mut comp, 0, inj)
                } else {
                    apply_module(&mut comp.modules[0], inj)
                }
            });
            rejected.push(r.err().map(|p| p.msg));
        }
        let mut out = vec![];
        for _ in 0..encodes.max(1) {
            out = match run_lib(|| comp.encode()) {
                Ok(b) => b,
                Err(p) => return Err(super::common::panic_fail("encode", &p)),
            };
        }
        let logs = crate::capture::take_logs();
        let m = match super::small::extract_first_module(&out) {
            Some(m) => m,
            None => return Err(fail("component-output-has-no-module", "no core module in the encoded component")),
        };
        Ok(Applied { rejected, out: m, logs })
    } else {
        let mut module = match super::common::lib_parse(bytes, mm) {
            Ok(m) => m,
            Err(o) => return Err(o),
        };
        for (k, e) in pre.iter().enumerate() {
            let r = run_lib(|| match e {
                PreEdit::AddImportFunc(ty) => {
                    module.add_import_func("pre".to_string(), format!("imp{}", k), wirm::ir::id::TypeID(*ty));
                }
                PreEdit::ReplaceImport(imp, params, results) => {
                    let mut b = wirm::ir::function::FunctionBuilder::new(params, results);
                    b.inject(Operator::Unreachable);
                    b.replace_import_in_module(&mut module, wirm::ir::id::ImportsID(*imp));
                }
            });
            if let Err(p) = r {
                return Err(super::common::panic_fail("pre-edit", &p));
            }
        }
        for inj in plan {
            let r = run_lib(|| apply_module(&mut module, inj));
            rejected.push(r.err().map(|p| p.msg));
        }
        let mut out = vec![];
        for _ in 0..encodes.max(1) {
            out = match run_lib(|| module.encode()) {
                Ok(b) => b,
                Err(p) => return Err(super::common::panic_fail("encode", &p)),
            };
        }
        let logs = crate::capture::take_logs();
        Ok(Applied { rejected, out, logs })
    }
}

/// Reference lowering of before / after / alternate / removal and block-alternate plans on a
/// decoded instruction list (wording of C15 and C21).
pub fn reference_lowering(ops: &[String], plan: &[&Inj]) -> Vec<String> {
    let n = ops.len();
    let st = structure(ops);
    let mut before: Vec<Vec<String>> = vec![vec![]; n];
    let mut after: Vec<Vec<String>> = vec![vec![]; n];
    let mut alt: Vec<Option<Vec<String>>> = vec![None; n];
    let mut balt: Vec<Option<Vec<String>>> = vec![None; n];
    let dbg = |p: &Vec<Operator>| -> Vec<String> { p.iter().map(|o| format!("{:?}", o)).collect() };
    for i in plan {
        match i.mode {
            IMode::Before => before[i.instr].extend(dbg(&i.payload)),
            IMode::After => after[i.instr].extend(dbg(&i.payload)),
            IMode::Alt => alt[i.instr].get_or_insert_with(Vec::new).extend(dbg(&i.payload)),
            IMode::EmptyAlt => alt[i.instr] = Some(vec![]),
            IMode::BlockAlt => balt[i.instr].get_or_insert_with(Vec::new).extend(dbg(&i.payload)),
            IMode::EmptyBlockAlt => balt[i.instr] = Some(vec![]),
            _ => {}
        }
    }
    let mut out = vec![];
    let mut i = 0;
    while i < n {
        if let Some(repl) = &balt[i] {
            let name = dm::op_name(&ops[i]);
            if name == "Else" {
                // remove the else keyword and the else-arm, keep the end
                out.extend(before[i].iter().cloned());
                out.extend(repl.iter().cloned());
                let (_, end) = st.if_of_else[&i];
                i = end; // the end itself is emitted normally
                continue;
            } else if let Some(&end) = st.end_of.get(&i) {
                out.extend(before[i].iter().cloned());
                out.extend(repl.iter().cloned());
                out.extend(after[end].iter().cloned());
                i = end + 1;
                continue;
            }
        }
        out.extend(before[i].iter().cloned());
        let last = i + 1 == n;
        if last {
            out.push(ops[i].clone());
        } else {
            match &alt[i] {
                Some(a) => out.extend(a.iter().cloned()),
                None => out.push(ops[i].clone()),
            }
            out.extend(after[i].iter().cloned());
        }
        i += 1;
    }
    out
}
