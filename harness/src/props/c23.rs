//! C23: pull_side_effects lists exactly the tagged additions and probes.
use super::common::*;
use super::edit::*;
use crate::capture::run_lib;
use crate::dec::module as dm;
use crate::engine::*;
use crate::gen::{gen_module, GComposite, Kind, Profile, VT};
use crate::tape::fnv;
use std::collections::BTreeMap;
use wasmparser::Operator;
use wirm::ir::function::FunctionBuilder;
use wirm::ir::id::{FunctionID, TypeID};
use wirm::ir::module::side_effects::{InjectType, Injection};
use wirm::ir::types::{FuncInstrMode, InstrumentationMode, Tag};
use wirm::iterator::iterator_trait::{IteratingInstrumenter, Iterator as _};
use wirm::opcode::{Inject, Instrumenter};
use wirm::{DataSegment, DataSegmentKind, DataType, Location};

pub struct SideEffects;

#[derive(Clone, Debug)]
enum Item {
    Type { params: Vec<VT>, results: Vec<VT> },
    ImportFunc { module: String, name: String, ty: u32 },
    ImportGlobal { module: String, name: String, ty: VT, mutable: bool },
    ImportMemory { module: String, name: String, min: u64 },
    Export { name: String, target: u32 },
    Memory { min: u64, max: Option<u64> },
    Data { bytes: Vec<u8>, active: bool },
    Global { ty: VT, mutable: bool, init: Vec<String> },
    Func { slot: u32, params: Vec<VT>, results: Vec<VT>, ops: Vec<String>, name: Option<String> },
    LocProbe { slot: u32, instr: usize, mode: &'static str, ops: Vec<String> },
    FuncProbe { slot: u32, mode: &'static str, ops: Vec<String> },
}

struct Tagged {
    tag: Vec<u8>,
    item: Item,
}

fn tag_of(k: usize) -> Vec<u8> {
    format!("T{:03}", k).into_bytes()
}

#[derive(Clone)]
enum Step {
    Type(Vec<VT>, Vec<VT>),
    ImportFunc(String, String, u32),
    ImportGlobal(String, String, VT, bool),
    ImportMemory(String, String, u64),
    Export(String, u32),
    Memory(u64, Option<u64>),
    Data(Vec<u8>, Option<u32>),
    Global(VT, bool, i64),
    Func(Vec<VT>, Vec<VT>, Vec<Operator<'static>>, Option<String>),
    LocProbe(u32, usize, u8, Vec<Operator<'static>>, bool),
    FuncProbe(u32, bool, Vec<Operator<'static>>),
}

fn apply<'a>(module: &mut wirm::Module<'a>, steps: &[(Step, Vec<u8>)]) -> Result<(), crate::capture::PanicInfo> {
    for (s, tag) in steps {
        let tag = Tag::new(tag.clone());
        let s = s.clone();
        run_lib(|| match s {
            Step::Type(p, r) => {
                let p: Vec<DataType> = p.iter().map(|v| dt(*v)).collect();
                let r: Vec<DataType> = r.iter().map(|v| dt(*v)).collect();
                module.types.add_func_type(&p, &r, Some(tag));
            }
            Step::ImportFunc(m, n, ty) => {
                module.add_import_func_with_tag(m, n, TypeID(ty), tag);
            }
            Step::ImportGlobal(m, n, ty, mu) => {
                module.add_imported_global_with_tag(m, n, dt(ty), mu, false, tag);
            }
            Step::ImportMemory(m, n, min) => {
                module.add_import_memory_with_tag(m, n, wasmparser::MemoryType { memory64: false, shared: false, initial: min, maximum: None, page_size_log2: None }, tag);
            }
            Step::Export(n, id) => module.exports.add_export_func(n, id, Some(tag)),
            Step::Memory(min, max) => {
                module.add_local_memory_with_tag(wasmparser::MemoryType { memory64: false, shared: false, initial: min, maximum: max, page_size_log2: None }, tag);
            }
            Step::Data(bytes, mem) => {
                let kind = match mem {
                    None => DataSegmentKind::Passive,
                    Some(m) => DataSegmentKind::Active {
                        memory_index: m,
                        offset_expr: wirm::ir::types::InitExpr::new(vec![wirm::ir::types::InitInstr::Value(wirm::ir::types::Value::I32(0))]),
                    },
                };
                module.add_data(DataSegment { kind, data: bytes, tag: Some(tag) });
            }
            Step::Global(ty, mu, k) => {
                let ie = match ty {
                    VT::I64 => wirm::ir::types::Value::I64(k),
                    VT::F32 => wirm::ir::types::Value::F32(k as f32),
                    VT::F64 => wirm::ir::types::Value::F64(k as f64),
                    _ => wirm::ir::types::Value::I32(k as i32),
                };
                module.add_global_with_tag(wirm::ir::types::InitExpr::new(vec![wirm::ir::types::InitInstr::Value(ie)]), dt(ty), mu, false, tag);
            }
            Step::Func(p, r, ops, name) => {
                let p: Vec<DataType> = p.iter().map(|v| dt(*v)).collect();
                let r: Vec<DataType> = r.iter().map(|v| dt(*v)).collect();
                let mut b = FunctionBuilder::new(&p, &r);
                for o in ops {
                    b.inject(o);
                }
                if let Some(n) = name {
                    b.set_name(n);
                }
                b.finish_module_with_tag(module, tag);
            }
            Step::LocProbe(fid, at, mode, ops, via_iter) => {
                let m = match mode {
                    0 => InstrumentationMode::Before,
                    1 => InstrumentationMode::After,
                    2 => InstrumentationMode::Alternate,
                    3 => InstrumentationMode::SemanticAfter,
                    4 => InstrumentationMode::BlockEntry,
                    _ => InstrumentationMode::BlockExit,
                };
                if via_iter {
                    let mut it = wirm::iterator::module_iterator::ModuleIterator::new(module, &vec![]);
                    loop {
                        if let (Location::Module { func_idx, instr_idx }, _) = it.curr_loc() {
                            if *func_idx == fid && instr_idx == at {
                                it.set_instrument_mode(m);
                                for o in ops.clone() {
                                    it.inject(o);
                                }
                                it.append_to_tag(tag.data().clone());
                                break;
                            }
                        }
                        if it.next().is_none() {
                            panic!("harness: location not reached");
                        }
                    }
                } else {
                    let loc = Location::Module { func_idx: FunctionID(fid), instr_idx: at };
                    let mut fm = module.functions.get_fn_modifier(FunctionID(fid)).expect("local function");
                    fm.set_instrument_mode_at(m, loc);
                    for o in ops.clone() {
                        fm.inject(o);
                    }
                    fm.append_tag_at(tag.data().clone(), loc);
                }
            }
            Step::FuncProbe(fid, entry, ops) => {
                let mut fm = module.functions.get_fn_modifier(FunctionID(fid)).expect("local function");
                if entry {
                    fm.func_entry();
                } else {
                    fm.func_exit();
                }
                for o in ops.clone() {
                    fm.inject(o);
                }
                fm.append_tag_at(tag.data().clone(), Location::Module { func_idx: FunctionID(fid), instr_idx: 0 });
                fm.finish_instr();
            }
        })?;
    }
    Ok(())
}

fn mask_refs(op: &str) -> String {
    // reference operands of *addition* bodies are not constrained by the statement
    let ids = dm::Ids { f: vec![], g: vec![], m: vec![], ambiguous: None };
    let s = dm::subst_op(op, &ids, false);
    // OUT-OF-RANGE(n) -> *
    let mut out = String::new();
    let mut rest = s.as_str();
    while let Some(i) = rest.find(":OUT-OF-RANGE(") {
        out.push_str(&rest[..i - 1]);
        out.push('*');
        let j = rest[i..].find(')').map(|x| i + x + 1).unwrap_or(rest.len());
        rest = &rest[j..];
    }
    out.push_str(rest);
    out
}

impl Driver for SideEffects {
    fn id(&self) -> &'static str {
        "C23"
    }
    fn rule(&self) -> &'static str {
        "tape -> G-edit base -> history of 2-8 additions and probes, each with a unique non-empty tag: new func type, imported func/global/memory, func export, local memory, data segment, global, built function (body referencing IDs, optional name), instruction-level probes (before/after/alternate through ModuleIterator or FunctionModifier) and function entry/exit probes -> the same history is applied to two parses: pull_side_effects() on one, encode() on the other. Oracle: for every tagged item exactly one record carries its tag, with matching kind and content (signature, limits, bytes, initialiser, body); no other record with a non-empty tag exists; target_fid and the function/global/memory indices inside probe bodies, resolved in the decoded encode() output, designate the identities the model assigns. Records with an empty tag are tolerated. Non-trivial: >=3 tagged items of >=2 kinds and an index shift. Distinct = hash(base, history)."
    }
    fn tape_len(&self) -> usize {
        3072
    }
    fn cases(&self, tier: Tier) -> u64 {
        match tier {
            Tier::Quick => 40_000,
            Tier::Thorough => 2_000_000,
        }
    }
    fn assumptions(&self) -> Vec<&'static str> {
        vec![
            "pull_side_effects and encode are run on two separately parsed copies with the same history (pull_side_effects is itself an encode)",
            "`id`/`index` fields of addition records and reference operands inside addition bodies are not constrained by the statement and are masked",
        ]
    }
    fn run(&self, c: &mut Case) -> Outcome {
        let mut profile = Profile::mvp();
        profile.tail = c.t.chance(1, 3);
        profile.reftypes = c.t.chance(1, 3);
        profile.multimem = true;
        let mut cfg = steer_cfg(c, Kind::Edit, profile);
        cfg.max_funcs = 4;
        let gm = gen_module(&mut c.t, &cfg);
        let bytes = gm.encode();
        if let Err(e) = dm::validate(&bytes) {
            c.gen_invalid();
            c.note(|| format!("GENERATOR BUG: {}", e));
            return Outcome::Discard("generator produced an invalid module");
        }
        let din = match dm::decode(&bytes) {
            Ok(d) => d,
            Err(_) => return Outcome::Discard("undecodable base"),
        };
        if dm::Ids::edit(&din).ambiguous.is_some() {
            return Outcome::Discard("base identities not unique");
        }
        let mut w = World::new(&gm, &din);
        let all = Alphabet { func_add: true, global_add: true, mem_add: true, ..Default::default() };
        let n = c.t.range(2, 8);
        let mut steps: Vec<(Step, Vec<u8>)> = vec![];
        let mut items: Vec<Tagged> = vec![];
        let mut func_level: std::collections::BTreeSet<u32> = Default::default();
        let mut shifted = false;
        let mut merged_class = false;
        let mut special_class = false;
        let mut log = vec![];
        for k in 0..n {
            let tag = tag_of(k);
            let uniq = w.fresh();
            match c.t.below(11) {
                0 => {
                    // a signature that cannot exist yet: k+5 i64 params
                    let params: Vec<VT> = (0..(5 + uniq as usize)).map(|_| VT::I64).collect();
                    let results = vec![VT::F32];
                    w.add_func_type(&params, &results);
                    log.push(format!("[{}] add_func_type({} x i64 -> f32)", k, params.len()));
                    steps.push((Step::Type(params.clone(), results.clone()), tag.clone()));
                    items.push(Tagged { tag, item: Item::Type { params, results } });
                }
                1 => {
                    let tys: Vec<u32> = w.types.iter().enumerate().filter(|(_, t)| matches!(t.comp, GComposite::Func { .. })).map(|(i, _)| i as u32).collect();
                    let ty = *c.t.pick(&tys);
                    let (params, results) = match &w.types[ty as usize].comp {
                        GComposite::Func { params, results } => (params.clone(), results.clone()),
                        _ => unreachable!(),
                    };
                    let (m, nm) = ("ai".to_string(), format!("a{}", uniq));
                    if w.f.iter().any(|f| !f.import) {
                        shifted = true;
                    }
                    let id = w.f.len() as u32;
                    w.imports.push(ImpRef::F(id));
                    w.f.push(FSlot { params, results, ty_idx: ty, import: true, deleted: false, nops: 0, added: true, was_import: false });
                    w.model.funcs.push(dm::DFunc { import: Some((m.clone(), nm.clone())), ty_idx: ty, ..Default::default() });
                    log.push(format!("[{}] add_import_func_with_tag({}.{}, type {}) = slot {}", k, m, nm, ty, id));
                    steps.push((Step::ImportFunc(m.clone(), nm.clone(), ty), tag.clone()));
                    items.push(Tagged { tag, item: Item::ImportFunc { module: m, name: nm, ty } });
                }
                2 => {
                    if w.g.iter().any(|g| !g.import) && c.avoid("imported_global_shifts_locals") {
                        continue;
                    }
                    let ty = *c.t.pick(&[VT::I32, VT::I64, VT::F64]);
                    let mu = c.t.bool();
                    let (m, nm) = ("gi".to_string(), format!("g{}", uniq));
                    w.imports.push(ImpRef::G(w.g.len() as u32));
                    w.g.push(GSlot { ty, mutable: mu, import: true, deleted: false });
                    w.model.globals.push(dm::DGlobal { import: Some((m.clone(), nm.clone())), ty: global_ty_dbg(ty, mu), init: vec![] });
                    log.push(format!("[{}] add_imported_global_with_tag({}.{}, {:?}, mut={})", k, m, nm, ty, mu));
                    steps.push((Step::ImportGlobal(m.clone(), nm.clone(), ty, mu), tag.clone()));
                    items.push(Tagged { tag, item: Item::ImportGlobal { module: m, name: nm, ty, mutable: mu } });
                }
                3 => {
                    let (m, nm) = ("mi".to_string(), format!("m{}", uniq));
                    let min = 50 + uniq as u64;
                    w.imports.push(ImpRef::M(w.m.len() as u32));
                    w.m.push(MSlot { is64: false, import: true, deleted: false });
                    w.model.mems.push((Some((m.clone(), nm.clone())), format!("{:?}", mem_ty(min, None, false, false))));
                    log.push(format!("[{}] add_import_memory_with_tag({}.{}, min {})", k, m, nm, min));
                    steps.push((Step::ImportMemory(m.clone(), nm.clone(), min), tag.clone()));
                    items.push(Tagged { tag, item: Item::ImportMemory { module: m, name: nm, min } });
                }
                4 => {
                    let live = w.live_f();
                    if live.is_empty() {
                        continue;
                    }
                    let id = *c.t.pick(&live);
                    let name = format!("ex{}", uniq);
                    w.model.exports.push((name.clone(), "func".into(), id));
                    log.push(format!("[{}] add_export_func({:?}, {})", k, name, id));
                    steps.push((Step::Export(name.clone(), id), tag.clone()));
                    items.push(Tagged { tag, item: Item::Export { name, target: id } });
                }
                5 => {
                    let min = 50 + uniq as u64;
                    let max = if c.t.bool() { Some(min + 3) } else { None };
                    w.m.push(MSlot { is64: false, import: false, deleted: false });
                    w.model.mems.push((None, format!("{:?}", mem_ty(min, max, false, false))));
                    log.push(format!("[{}] add_local_memory_with_tag(min {} max {:?})", k, min, max));
                    steps.push((Step::Memory(min, max), tag.clone()));
                    items.push(Tagged { tag, item: Item::Memory { min, max } });
                }
                6 => {
                    let nb = c.t.below(6);
                    let b = c.t.bytes(nb);
                    let live: Vec<u32> = w.live_m().into_iter().filter(|m| !w.m[*m as usize].is64).collect();
                    let mem = if live.is_empty() || (din.data_count.is_some() && c.t.bool()) { None } else { Some(*c.t.pick(&live)) };
                    if mem.is_none() && din.data_count.is_none() {
                        continue;
                    }
                    log.push(format!("[{}] add_data({:?}, mem {:?})", k, b, mem));
                    steps.push((Step::Data(b.clone(), mem), tag.clone()));
                    items.push(Tagged { tag, item: Item::Data { bytes: b, active: mem.is_some() } });
                }
                7 => {
                    let ty = *c.t.pick(&[VT::I32, VT::I64, VT::F32, VT::F64]);
                    let mu = c.t.bool();
                    let kk = 9000 + uniq;
                    let init = match ty {
                        VT::I64 => format!("{:?}", Operator::I64Const { value: kk }),
                        VT::F32 => format!("{:?}", Operator::F32Const { value: wasmparser::Ieee32::from(kk as f32) }),
                        VT::F64 => format!("{:?}", Operator::F64Const { value: wasmparser::Ieee64::from(kk as f64) }),
                        _ => format!("{:?}", Operator::I32Const { value: kk as i32 }),
                    };
                    w.g.push(GSlot { ty, mutable: mu, import: false, deleted: false });
                    w.model.globals.push(dm::DGlobal { import: None, ty: global_ty_dbg(ty, mu), init: vec![init.clone()] });
                    log.push(format!("[{}] add_global_with_tag({:?}, mut={}, {})", k, ty, mu, init));
                    steps.push((Step::Global(ty, mu, kk), tag.clone()));
                    items.push(Tagged { tag, item: Item::Global { ty, mutable: mu, init: vec![init] } });
                }
                8 => {
                    let (params, results) = (vec![VT::I64, VT::F32], vec![VT::I32]);
                    let uid = 0x7EED_0000 + uniq;
                    let ns = c.t.below(3);
                    let stmts = gen_stmts(&w, &all, ns, c, None);
                    let mut body: Vec<Operator<'static>> = vec![Operator::I64Const { value: uid }, Operator::Drop];
                    for s in &stmts {
                        if matches!(s, Stmt::RefFunc(_)) {
                            continue;
                        }
                        body.extend(stmt_ops(s, &w));
                    }
                    body.extend(const_ops(VT::I32, 40));
                    let name = if c.t.bool() { Some(format!("built{}", uniq)) } else { None };
                    let ty = w.add_func_type(&params, &results);
                    let slot = w.f.len() as u32;
                    let mut ops = dbg_ops(&body);
                    ops.push("End".into());
                    w.f.push(FSlot { params: params.clone(), results: results.clone(), ty_idx: ty, import: false, deleted: false, nops: ops.len(), added: true, was_import: false });
                    w.model.funcs.push(dm::DFunc { import: None, ty_idx: ty, locals: vec![], ops: ops.clone() });
                    log.push(format!("[{}] finish_module_with_tag body {:?} name {:?} = slot {}", k, ops, name, slot));
                    steps.push((Step::Func(params.clone(), results.clone(), body, name.clone()), tag.clone()));
                    items.push(Tagged { tag, item: Item::Func { slot, params, results, ops, name } });
                }
                9 => {
                    let cand: Vec<u32> = w.live_f().into_iter().filter(|f| !w.f[*f as usize].import && !func_level.contains(f) && w.f[*f as usize].nops > 3).collect();
                    if cand.is_empty() {
                        continue;
                    }
                    let fid = *c.t.pick(&cand);
                    let nops = w.f[fid as usize].nops;
                    let mut mode = c.t.below(3) as u8;
                    // alternate/after are not honoured at the final end (C15); stay inside the body
                    let mut at = c.t.range(2, nops - 2);
                    // one time in five a tagged special-mode probe on a block-like instruction
                    if c.t.chance(1, 5) {
                        let blockish: Vec<usize> = (2..nops.saturating_sub(1))
                            .filter(|i| matches!(w.model.funcs[fid as usize].ops.get(*i).map(|o| dm::op_name(o)), Some("Block" | "Loop" | "If")))
                            .collect();
                        if !blockish.is_empty() {
                            if c.avoid("tagged_special_instruction_probe") {
                                c.steered("tagged_special_instruction_probe");
                            } else {
                                at = *c.t.pick(&blockish);
                                mode = 3 + c.t.below(3) as u8;
                                special_class = true;
                            }
                        }
                    }
                    // a plain alternate replaces one instruction: not a structural one
                    let opk = w.model.funcs[fid as usize].ops.get(at).map(|o| dm::op_name(o).to_string()).unwrap_or_default();
                    if mode == 2 && matches!(opk.as_str(), "Block" | "Loop" | "If" | "Else" | "End" | "TryTable" | "Try" | "Catch" | "CatchAll") {
                        continue;
                    }
                    if items.iter().any(|t| matches!(&t.item, Item::LocProbe { slot, instr, mode: m, .. } if *slot == fid && *instr == at && *m == ["before", "after", "alternate", "semantic_after", "block_entry", "block_exit"][mode as usize])) {
                        continue; // one tag per (location, mode)
                    }
                    let ns = c.t.range(1, 2);
                    let stmts = gen_stmts(&w, &all, ns, c, None);
                    let mut ops: Vec<Operator<'static>> = vec![];
                    for s in &stmts {
                        if matches!(s, Stmt::RefFunc(_)) {
                            continue;
                        }
                        ops.extend(stmt_ops(s, &w));
                    }
                    if ops.is_empty() {
                        ops.push(Operator::Nop);
                    }
                    let via_iter = c.t.bool();
                    let mname = ["before", "after", "alternate", "semantic_after", "block_entry", "block_exit"][mode as usize];
                    log.push(format!("[{}] probe {} func {} instr {} via_iter={} {:?}", k, mname, fid, at, via_iter, dbg_ops(&ops)));
                    items.push(Tagged { tag: tag.clone(), item: Item::LocProbe { slot: fid, instr: at, mode: mname, ops: dbg_ops(&ops) } });
                    steps.push((Step::LocProbe(fid, at, mode, ops, via_iter), tag));
                }
                _ => {
                    let cand: Vec<u32> = w.live_f().into_iter().filter(|f| !w.f[*f as usize].import && !func_level.contains(f) && w.f[*f as usize].nops > 0).collect();
                    if cand.is_empty() {
                        continue;
                    }
                    let mut cand = cand;
                    let has_before = |f: &u32| items.iter().any(|t| matches!(&t.item, Item::LocProbe { slot, mode, .. } if slot == f && *mode == "before"));
                    if c.avoid("func_probe_merges_into_before_probe") {
                        let n0 = cand.len();
                        cand.retain(|f| !has_before(f));
                        if cand.len() != n0 {
                            c.steered("func_probe_merges_into_before_probe");
                        }
                        if cand.is_empty() {
                            continue;
                        }
                    }
                    let fid = *c.t.pick(&cand);
                    if has_before(&fid) {
                        merged_class = true;
                    }
                    let entry = c.t.bool();
                    let mut ops = vec![Operator::I32Const { value: 7 + uniq as i32 }, Operator::Drop];
                    // probe bodies that use function, global and memory IDs (they are re-indexed
                    // on a separate code path from instruction-level probes)
                    let ns = c.t.below(3);
                    for s in gen_stmts(&w, &all, ns, c, None) {
                        if matches!(s, Stmt::RefFunc(_)) {
                            continue;
                        }
                        ops.extend(stmt_ops(&s, &w));
                    }
                    if ops.len() > 2 {
                        c.class("func_probe_body_with_references");
                    }
                    func_level.insert(fid);
                    log.push(format!("[{}] func_{} probe on func {}", k, if entry { "entry" } else { "exit" }, fid));
                    items.push(Tagged { tag: tag.clone(), item: Item::FuncProbe { slot: fid, mode: if entry { "Entry" } else { "Exit" }, ops: dbg_ops(&ops) } });
                    steps.push((Step::FuncProbe(fid, entry, ops), tag));
                }
            }
        }
        c.note(|| format!("BASE\n{}\nHISTORY\n{}", dm::print_wat(&bytes), log.join("\n")));
        if items.is_empty() {
            return Outcome::Discard("empty history");
        }
        // run the history on two copies
        let mut ma = match lib_parse(&bytes, true) {
            Ok(m) => m,
            Err(o) => return o,
        };
        let mut mb = match lib_parse(&bytes, true) {
            Ok(m) => m,
            Err(o) => return o,
        };
        if let Err(p) = apply(&mut ma, &steps) {
            return panic_fail("history", &p);
        }
        if let Err(p) = apply(&mut mb, &steps) {
            return panic_fail("history", &p);
        }
        let se = match run_lib(|| ma.pull_side_effects()) {
            Ok(s) => s,
            Err(p) => return panic_fail("pull_side_effects", &p),
        };
        let out = match lib_encode(&mut mb) {
            Ok(b) => b,
            Err(o) => return o,
        };
        let dout = match dm::decode(&out) {
            Ok(d) => d,
            Err(e) => return fail("undecodable-output", e),
        };
        let oids = dm::Ids::edit(&dout);
        let mids = dm::Ids::edit(&w.model);
        // flatten the records
        let mut by_tag: BTreeMap<Vec<u8>, Vec<&Injection>> = BTreeMap::new();
        let mut kinds_seen: Vec<InjectType> = vec![];
        for (k, v) in se.iter() {
            kinds_seen.push(*k);
            for inj in v {
                let tag = match inj {
                    Injection::Import { tag, .. }
                    | Injection::Export { tag, .. }
                    | Injection::Type { tag, .. }
                    | Injection::Memory { tag, .. }
                    | Injection::PassiveData { tag, .. }
                    | Injection::ActiveData { tag, .. }
                    | Injection::Global { tag, .. }
                    | Injection::Func { tag, .. }
                    | Injection::Local { tag, .. }
                    | Injection::Table { tag }
                    | Injection::Element { tag }
                    | Injection::FuncProbe { tag, .. }
                    | Injection::FuncLocProbe { tag, .. } => tag.data().clone(),
                };
                by_tag.entry(tag).or_default().push(inj);
            }
        }
        let mut fails: Vec<Fail> = vec![];
        let body_ids = |ops: &[Operator]| -> Vec<String> { ops.iter().map(|o| dm::subst_op(&format!("{:?}", o), &oids, false)).collect() };
        let model_ids = |ops: &[String]| -> Vec<String> { ops.iter().map(|o| dm::subst_op(o, &mids, false)).collect() };
        for t in &items {
            let mut recs = by_tag.get(&t.tag).cloned().unwrap_or_default();
            // a built function or an exit probe may create a function type; that type is an added
            // item too and carries the same tag
            if matches!(t.item, Item::Func { .. } | Item::FuncProbe { .. }) {
                recs.retain(|r| !matches!(r, Injection::Type { .. }));
            }
            let kind = match &t.item {
                Item::Type { .. } => "type",
                Item::ImportFunc { .. } | Item::ImportGlobal { .. } | Item::ImportMemory { .. } => "import",
                Item::Export { .. } => "export",
                Item::Memory { .. } => "memory",
                Item::Data { .. } => "data",
                Item::Global { .. } => "global",
                Item::Func { .. } => "func",
                Item::LocProbe { mode, .. } => mode,
                Item::FuncProbe { mode, .. } => mode,
            };
            if recs.len() != 1 {
                fails.push(Fail {
                    sig: format!("record-count:{}:{}", kind, if recs.is_empty() { "none" } else { "several" }),
                    detail: format!("tag {:?} ({:?}) has {} records", String::from_utf8_lossy(&t.tag), t.item, recs.len()),
                });
                continue;
            }
            let bad = |what: &str, d: String| Fail { sig: format!("record-content:{}:{}", kind, what), detail: format!("tag {:?}: {}", String::from_utf8_lossy(&t.tag), d) };
            match (&t.item, recs[0]) {
                (Item::Type { params, results }, Injection::Type { ty, .. }) => {
                    let p: Vec<DataType> = params.iter().map(|v| dt(*v)).collect();
                    let r: Vec<DataType> = results.iter().map(|v| dt(*v)).collect();
                    match ty {
                        wirm::ir::module::module_types::Types::FuncType { params: pp, results: rr, .. } if pp.to_vec() == p && rr.to_vec() == r => {}
                        other => fails.push(bad("type", format!("{:?}", other))),
                    }
                }
                (Item::ImportFunc { module, name, ty }, Injection::Import { module: m, name: n, type_ref, .. }) => {
                    if m != module || n != name || !matches!(type_ref, wasmparser::TypeRef::Func(x) if x == ty) {
                        fails.push(bad("import-func", format!("{} {} {:?}", m, n, type_ref)));
                    }
                }
                (Item::ImportGlobal { module, name, ty, mutable }, Injection::Import { module: m, name: n, type_ref, .. }) => {
                    let ok = matches!(type_ref, wasmparser::TypeRef::Global(g) if g.mutable == *mutable && g.content_type == wasmparser_valtype(*ty));
                    if m != module || n != name || !ok {
                        fails.push(bad("import-global", format!("{} {} {:?}", m, n, type_ref)));
                    }
                }
                (Item::ImportMemory { module, name, min }, Injection::Import { module: m, name: n, type_ref, .. }) => {
                    let ok = matches!(type_ref, wasmparser::TypeRef::Memory(mt) if mt.initial == *min);
                    if m != module || n != name || !ok {
                        fails.push(bad("import-memory", format!("{} {} {:?}", m, n, type_ref)));
                    }
                }
                (Item::Export { name, .. }, Injection::Export { name: n, kind, .. }) => {
                    if n != name || !matches!(kind, wasmparser::ExternalKind::Func) {
                        fails.push(bad("export", format!("{} {:?}", n, kind)));
                    }
                }
                (Item::Memory { min, max }, Injection::Memory { initial, maximum, .. }) => {
                    if initial != min || maximum != max {
                        fails.push(bad("memory", format!("{} {:?}", initial, maximum)));
                    }
                }
                (Item::Data { bytes, active: false }, Injection::PassiveData { data, .. }) | (Item::Data { bytes, active: true }, Injection::ActiveData { data, .. }) => {
                    if data != bytes {
                        fails.push(bad("data", format!("{:?}", data)));
                    }
                }
                (Item::Global { ty, mutable, .. }, Injection::Global { ty: t2, mutable: m2, .. }) => {
                    if *t2 != dt(*ty) || m2 != mutable {
                        fails.push(bad("global", format!("{:?} {}", t2, m2)));
                    }
                }
                (Item::Func { params, results, ops, name, .. }, Injection::Func { sig, body, fname, .. }) => {
                    let p: Vec<DataType> = params.iter().map(|v| dt(*v)).collect();
                    let r: Vec<DataType> = results.iter().map(|v| dt(*v)).collect();
                    let got: Vec<String> = body.iter().map(|i| mask_refs(&format!("{:?}", i.op))).collect();
                    let want: Vec<String> = ops.iter().map(|o| mask_refs(o)).collect();
                    if sig.0 != p || sig.1 != r {
                        fails.push(bad("func-sig", format!("{:?}", sig)));
                    } else if got != want {
                        fails.push(bad("func-body", format!("{:?} vs {:?}", got, want)));
                    } else if fname != name {
                        fails.push(bad("func-name", format!("{:?} vs {:?}", fname, name)));
                    }
                }
                (Item::LocProbe { slot, instr, mode, ops }, Injection::FuncLocProbe { target_fid, target_opcode_idx, mode: m2, body, .. }) => {
                    let mname = match m2 {
                        InstrumentationMode::Before => "before",
                        InstrumentationMode::After => "after",
                        InstrumentationMode::Alternate => "alternate",
                        InstrumentationMode::SemanticAfter => "semantic_after",
                        InstrumentationMode::BlockEntry => "block_entry",
                        InstrumentationMode::BlockExit => "block_exit",
                        _ => "special",
                    };
                    if oids.fid(*target_fid) != mids.fid(*slot) {
                        fails.push(bad("target_fid", format!("target_fid {} is {} in the encoded module, the probe was placed in {}", target_fid, oids.fid(*target_fid), mids.fid(*slot))));
                    } else if *target_opcode_idx as usize != *instr || mname != *mode {
                        fails.push(bad("location", format!("opcode idx {} mode {}", target_opcode_idx, mname)));
                    } else if body_ids(body) != model_ids(ops) {
                        fails.push(bad("probe-body-index-space", format!("{:?} vs {:?}", body_ids(body), model_ids(ops))));
                    }
                }
                (Item::FuncProbe { slot, mode, ops }, Injection::FuncProbe { target_fid, mode: m2, body, .. }) => {
                    let mname = match m2 {
                        FuncInstrMode::Entry => "Entry",
                        FuncInstrMode::Exit => "Exit",
                    };
                    if oids.fid(*target_fid) != mids.fid(*slot) {
                        fails.push(bad("target_fid", format!("target_fid {} is {} in the encoded module, the probe was placed in {}", target_fid, oids.fid(*target_fid), mids.fid(*slot))));
                    } else if mname != *mode || body_ids(body) != model_ids(ops) {
                        fails.push(bad("func-probe-body", format!("{} {:?}", mname, body_ids(body))));
                    }
                }
                (item, _) => fails.push(bad("wrong-kind", format!("{:?}", item))),
            }
        }
        // records without a tag are library-synthesised (lowered function-level probes): their
        // existence is tolerated, but their bodies, too, must be in the encoded module's index
        // space - the body has to occur, operand for operand, in the encoded target function
        for rec in by_tag.get(&Vec::<u8>::new()).cloned().unwrap_or_default() {
            if let Injection::FuncLocProbe { target_fid, body, .. } = rec {
                if body.is_empty() {
                    continue;
                }
                let Some(f) = dout.funcs.get(*target_fid as usize) else {
                    fails.push(Fail { sig: "untagged-record:target_fid-out-of-range".into(), detail: format!("target_fid {}", target_fid) });
                    continue;
                };
                let hay: Vec<String> = f.ops.iter().map(|o| dm::subst_op(o, &oids, false)).collect();
                let needle = body_ids(body);
                let found = needle.len() <= hay.len() && (0..=hay.len() - needle.len()).any(|i| hay[i..i + needle.len()] == needle[..]);
                if !found {
                    fails.push(Fail {
                        sig: "untagged-record:body-not-in-encoded-function".into(),
                        detail: format!("untagged probe record on function {}: body {:?} does not occur in the encoded function (wrong index space?)", target_fid, needle),
                    });
                }
            }
        }
        // no other non-empty tag
        for (tag, recs) in &by_tag {
            if !tag.is_empty() && !items.iter().any(|t| &t.tag == tag) {
                fails.push(Fail { sig: "unexpected-record".into(), detail: format!("{} records with unknown tag {:?}", recs.len(), String::from_utf8_lossy(tag)) });
            }
        }
        if !fails.is_empty() {
            if special_class {
                let f = fails.swap_remove(0);
                return fail("class:tagged_special_instruction_probe", format!("[{}] {}", f.sig, f.detail));
            }
            if merged_class {
                let f = fails.swap_remove(0);
                return fail("class:func_probe_merges_into_before_probe", format!("[{}] {}", f.sig, f.detail));
            }
            return Outcome::FailMany(fails);
        }
        let mut kinds: Vec<&str> = items
            .iter()
            .map(|t| match &t.item {
                Item::Type { .. } => "type",
                Item::ImportFunc { .. } => "import_func",
                Item::ImportGlobal { .. } => "import_global",
                Item::ImportMemory { .. } => "import_memory",
                Item::Export { .. } => "export",
                Item::Memory { .. } => "memory",
                Item::Data { .. } => "data",
                Item::Global { .. } => "global",
                Item::Func { .. } => "func",
                Item::LocProbe { .. } => "loc_probe",
                Item::FuncProbe { .. } => "func_probe",
            })
            .collect();
        for k in &kinds {
            c.class(&format!("item:{}", k));
        }
        kinds.sort();
        kinds.dedup();
        if items.len() >= 3 && kinds.len() >= 2 && shifted {
            c.nontrivial(fnv(&bytes) ^ fnv(log.join("|").as_bytes()));
        }
        Outcome::Pass
    }
}
