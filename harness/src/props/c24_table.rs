//! C24 oracle table: one entry per instruction helper of `wirm::opcode::Opcode` and
//! `wirm::opcode::MacroOpcode`.
//!
//! INDEPENDENCE: the `expect` side of every entry is written from the helper's *name* (and the
//! WebAssembly spec mnemonic that name denotes), never from the helper's body. Only the helper
//! names and parameter types were taken from `/repo/src/opcode.rs`.
//!
//! Name -> mnemonic conventions used (all follow the core spec / GC / bulk-memory proposals):
//!   `*_stmt`                      -> the keyword without the suffix (`return`, `if`, `else`, `loop`)
//!   `*_signed` / `*_unsigned`     -> `_s` / `_u`
//!   `lte` / `gte`                 -> `le` / `ge`
//!   `i32_extend_8s`               -> `i32.extend8_s`   (likewise 16s)
//!   `iNN_trunc_fMMs|u`            -> `iNN.trunc_fMM_s|u`
//!   `i64_extend_i32s|u`           -> `i64.extend_i32_s|u`
//!   `fNN_convert_iMMs|u`          -> `fNN.convert_iMM_s|u`
//!   `ref_test` / `ref_cast`       -> `ref.test (ref ht)` / `ref.cast (ref ht)`       (non-null form)
//!   `ref_test_null`/`ref_cast_null` -> `ref.test (ref null ht)` / `ref.cast (ref null ht)`
//!   `u32_const(v)`                -> `i32.const (v as i32)`  (two's-complement reinterpretation)
//!   `u64_const(v)`                -> `i64.const (v as i64)`
//!
//! Imm field usage (so that a caller can constrain what has to be constrained):
//!   * `mem`            memory index of every memarg and of memory_size/grow/fill/discard/init;
//!                      destination memory of memory_copy
//!   * `u[0]`           the first (or only) u32-like immediate: function / local / global / type /
//!                      data index, branch depth, i32 / u32 constant, source memory of memory_copy,
//!                      and the *selector* for BlockType (`% 3`) and HeapType (`% 15`) arguments
//!   * `u[1]`           the second u32-like immediate (field index, array size, data / elem index,
//!                      source type of array_copy) and the type index of BlockType::FuncType /
//!                      HeapType::Concrete
//!   * `u[2]`           value-type selector (`% 31`: 5 numeric/vector types, 12 abstract heap types x 2 nullabilities, concrete index x 2) of BlockType::Type
//!   * `q[0]`           memarg offset, i64 / u64 constant
//!   * `f32b` / `f64b`  float constant bit patterns
//!   * `align`          memarg alignment exponent;  `flag`  `shared` bit of abstract heap types
//!   * `u[3]`, `q[1]`, `v`, `lane` are unused (the traits have no SIMD helpers)
//!
//! NOTE for the checker (observed while validating this table, not part of the oracle): wirm's
//! `Module::encode` resolves *function*, *global* and *memory* indices of instructions through an
//! id mapping and panics ("Deleted function!", "Deleted global!", "Attempting to reference a
//! deleted memory") if the index does not name an existing entity of the module. Hence
//!   - `mem` must be < number of memories of the host module for: all 20 load/store helpers,
//!     memory_size, memory_grow, memory_fill, memory_discard, memory_init, memory_copy;
//!   - `u[0]` must be < number of functions for call, ref_func; < number of globals for
//!     global_get, global_set; < number of memories for memory_copy.
//! All other immediates (type / data / elem / field / local indices, depths, constants, offsets)
//! are passed through untouched and may be arbitrary.

#![allow(clippy::all)]

use wasm_encoder::Instruction;
use wirm::ir::function::FunctionBuilder;
use wirm::ir::id::{DataSegmentID, ElementID, FieldID, FunctionID, GlobalID, LocalID, TypeID};
use wirm::ir::module::module_types::{AbstractHeapType as WAbs, HeapType as WHeap};
use wirm::ir::types::{BlockType as WBlock, DataType};
use wirm::iterator::module_iterator::ModuleIterator;
#[allow(unused_imports)]
use wirm::opcode::{MacroOpcode, Opcode};

/// Random immediates, filled by the caller. Each helper uses whichever fields it needs.
#[derive(Clone, Debug, Default)]
pub struct Imm {
    pub u: [u32; 4],  // indices, depths, u32 constants, lane-free u32 immediates
    pub q: [u64; 2],  // u64 constants, memarg offsets
    pub f32b: u32,    // bit pattern for f32 constants (may be a NaN with payload)
    pub f64b: u64,    // bit pattern for f64 constants
    pub v: [u8; 16],  // v128 constant bytes / shuffle lanes (caller guarantees nothing)
    pub align: u8,    // memarg alignment exponent (0..=4)
    pub mem: u32,     // memarg memory index
    pub lane: u8,     // lane immediate
    pub flag: bool,   // nullable flags etc.
}

pub struct Helper {
    /// the method name exactly as in opcode.rs
    pub name: &'static str,
    /// true if the helper takes at least one immediate argument
    pub has_imm: bool,
    /// call the helper on a FunctionBuilder
    pub via_builder: for<'x> fn(&'x mut FunctionBuilder<'static>, &Imm),
    /// call the same helper on a ModuleIterator (it injects at the iterator's current location/mode)
    pub via_iter: for<'x, 'y> fn(&'x mut ModuleIterator<'y, 'static>, &Imm),
    /// the instruction(s) the NAME denotes, with the immediates of `Imm` mapped the same way as in
    /// the two calls above
    pub expect: fn(&Imm) -> Vec<Instruction<'static>>,
}

// ---------------------------------------------------------------------------------------------
// Imm -> argument derivations (input side: wirm / wasmparser types; expect side: wasm_encoder)
// ---------------------------------------------------------------------------------------------

/// memarg on the input side: align exponent, offset = q[0], memory = mem.
fn in_memarg(i: &Imm) -> wasmparser::MemArg {
    wasmparser::MemArg {
        align: i.align,
        max_align: i.align,
        offset: i.q[0],
        memory: i.mem,
    }
}

/// the same memarg on the expectation side.
fn ex_memarg(i: &Imm) -> wasm_encoder::MemArg {
    wasm_encoder::MemArg {
        offset: i.q[0],
        align: i.align as u32,
        memory_index: i.mem,
    }
}

/// Block type: `u[0] % 3` picks Empty / Type(value type by `u[2] % 31`) / FuncType(TypeID(u[1])).
fn in_blockty(i: &Imm) -> WBlock {
    match i.u[0] % 3 {
        0 => WBlock::Empty,
        1 => WBlock::Type(match i.u[2] % 31 {
            0 => DataType::I32,
            1 => DataType::I64,
            2 => DataType::F32,
            3 => DataType::F64,
            4 => DataType::V128,
            // every abstract heap type in both nullabilities, and a concrete type index
            n @ 5..=28 => super::edit::dt(crate::gen::VT::Abs(((n - 5) / 2) as u8, (n - 5) % 2 == 0)),
            // (a type index above the format's limit of 1 000 000 types is no type index)
            29 => DataType::Module { ty_id: i.u[1] % 1_000_000, nullable: true },
            _ => DataType::Module { ty_id: i.u[1] % 1_000_000, nullable: false },
        }),
        _ => WBlock::FuncType(TypeID(i.u[1])),
    }
}

fn ex_blockty(i: &Imm) -> wasm_encoder::BlockType {
    use wasm_encoder::ValType;
    match i.u[0] % 3 {
        0 => wasm_encoder::BlockType::Empty,
        1 => wasm_encoder::BlockType::Result(match i.u[2] % 31 {
            0 => ValType::I32,
            1 => ValType::I64,
            2 => ValType::F32,
            3 => ValType::F64,
            4 => ValType::V128,
            n @ 5..=28 => crate::gen::VT::Abs(((n - 5) / 2) as u8, (n - 5) % 2 == 0).val(),
            29 => ValType::Ref(wasm_encoder::RefType { nullable: true, heap_type: wasm_encoder::HeapType::Concrete(i.u[1] % 1_000_000) }),
            _ => ValType::Ref(wasm_encoder::RefType { nullable: false, heap_type: wasm_encoder::HeapType::Concrete(i.u[1] % 1_000_000) }),
        }),
        _ => wasm_encoder::BlockType::FunctionType(i.u[1]),
    }
}

/// Heap type: `u[0] % 15` picks one of the 14 abstract heap types (shared = `flag`) or, for 14,
/// the concrete module-level type index `u[1]`.
fn in_heapty(i: &Imm) -> WHeap {
    let ty = match i.u[0] % 15 {
        0 => WAbs::Func,
        1 => WAbs::Extern,
        2 => WAbs::Any,
        3 => WAbs::None,
        4 => WAbs::NoExtern,
        5 => WAbs::NoFunc,
        6 => WAbs::Eq,
        7 => WAbs::Struct,
        8 => WAbs::Array,
        9 => WAbs::I31,
        10 => WAbs::Exn,
        11 => WAbs::NoExn,
        12 => WAbs::Cont,
        13 => WAbs::NoCont,
        _ => return WHeap::Concrete(wasmparser::UnpackedIndex::Module(i.u[1])),
    };
    WHeap::Abstract {
        shared: i.flag,
        ty,
    }
}

fn ex_heapty(i: &Imm) -> wasm_encoder::HeapType {
    use wasm_encoder::AbstractHeapType as A;
    let ty = match i.u[0] % 15 {
        0 => A::Func,
        1 => A::Extern,
        2 => A::Any,
        3 => A::None,
        4 => A::NoExtern,
        5 => A::NoFunc,
        6 => A::Eq,
        7 => A::Struct,
        8 => A::Array,
        9 => A::I31,
        10 => A::Exn,
        11 => A::NoExn,
        12 => A::Cont,
        13 => A::NoCont,
        _ => return wasm_encoder::HeapType::Concrete(i.u[1]),
    };
    wasm_encoder::HeapType::Abstract {
        shared: i.flag,
        ty,
    }
}

/// `wasm_encoder::Ieee32` with exactly the given bit pattern. wasm-encoder 0.235 offers no
/// from-bits constructor, only `From<f32>`; the assertion guarantees the oracle itself never
/// carries a silently altered NaN payload.
fn ex_f32(bits: u32) -> wasm_encoder::Ieee32 {
    let v = wasm_encoder::Ieee32::from(f32::from_bits(bits));
    assert_eq!(v.bits(), bits, "oracle f32 bit pattern not preserved");
    v
}

/// `wasm_encoder::Ieee64` with exactly the given bit pattern (see `ex_f32`).
fn ex_f64(bits: u64) -> wasm_encoder::Ieee64 {
    let v = wasm_encoder::Ieee64::from(f64::from_bits(bits));
    assert_eq!(v.bits(), bits, "oracle f64 bit pattern not preserved");
    v
}

// ---------------------------------------------------------------------------------------------
// Entry macros
// ---------------------------------------------------------------------------------------------

/// General entry. `$m` is the helper's method name (used both for the call and, stringified, as
/// the `name`), so a typo in a name is a compile error. The call body is instantiated twice.
macro_rules! h {
    ($m:ident, $has:expr, |$b:ident, $i:ident| $call:block, |$j:ident| $exp:expr) => {{
        #[allow(unused_variables)]
        fn vb<'x>($b: &'x mut FunctionBuilder<'static>, $i: &Imm) {
            $call
        }
        #[allow(unused_variables)]
        fn vi<'x, 'y>($b: &'x mut ModuleIterator<'y, 'static>, $i: &Imm) {
            $call
        }
        #[allow(unused_variables)]
        fn ex($j: &Imm) -> Vec<Instruction<'static>> {
            $exp
        }
        Helper {
            name: stringify!($m),
            has_imm: $has,
            via_builder: vb,
            via_iter: vi,
            expect: ex,
        }
    }};
}

/// Helper without immediates: `n!(method, ExpectedVariant)`.
macro_rules! n {
    ($m:ident, $v:ident) => {
        h!($m, false, |b, i| { b.$m(); }, |i| vec![Instruction::$v])
    };
}

/// Helper taking a single memarg: `m!(method, ExpectedVariant)`.
macro_rules! m {
    ($m:ident, $v:ident) => {
        h!($m, true, |b, i| { b.$m(in_memarg(i)); }, |i| vec![Instruction::$v(ex_memarg(i))])
    };
}

/// Helper taking one u32-backed index (`$wrap` is the id newtype or nothing): expect `Variant(u[0])`.
macro_rules! x {
    ($m:ident, $wrap:ident, $v:ident) => {
        h!($m, true, |b, i| { b.$m($wrap(i.u[0])); }, |i| vec![Instruction::$v(i.u[0])])
    };
    ($m:ident, $v:ident) => {
        h!($m, true, |b, i| { b.$m(i.u[0]); }, |i| vec![Instruction::$v(i.u[0])])
    };
}

/// Helper taking a block type.
macro_rules! bt {
    ($m:ident, $v:ident) => {
        h!($m, true, |b, i| { b.$m(in_blockty(i)); }, |i| vec![Instruction::$v(ex_blockty(i))])
    };
}

/// Helper taking a heap type.
macro_rules! ht {
    ($m:ident, $v:ident) => {
        h!($m, true, |b, i| { b.$m(in_heapty(i)); }, |i| vec![Instruction::$v(ex_heapty(i))])
    };
}

pub fn helpers() -> Vec<Helper> {
    vec![
        // ------------------------------------------------------------------ control flow
        x!(call, FunctionID, Call),
        n!(return_stmt, Return),
        n!(nop, Nop),
        n!(unreachable, Unreachable),
        n!(select, Select),
        bt!(if_stmt, If),
        n!(else_stmt, Else),
        n!(end, End),
        bt!(block, Block),
        bt!(loop_stmt, Loop),
        x!(br, Br),
        x!(br_if, BrIf),
        // ------------------------------------------------------------------ locals
        x!(local_get, LocalID, LocalGet),
        x!(local_set, LocalID, LocalSet),
        x!(local_tee, LocalID, LocalTee),
        // ------------------------------------------------------------------ i32
        h!(i32_const, true, |b, i| { b.i32_const(i.u[0] as i32); },
            |i| vec![Instruction::I32Const(i.u[0] as i32)]),
        n!(i32_add, I32Add),
        n!(i32_sub, I32Sub),
        n!(i32_mul, I32Mul),
        n!(i32_div_signed, I32DivS),
        n!(i32_div_unsigned, I32DivU),
        n!(i32_rem_unsigned, I32RemU),
        n!(i32_rem_signed, I32RemS),
        n!(i32_and, I32And),
        n!(i32_or, I32Or),
        n!(i32_xor, I32Xor),
        n!(i32_shl, I32Shl),
        n!(i32_shr_signed, I32ShrS),
        n!(i32_shr_unsigned, I32ShrU),
        n!(i32_rotl, I32Rotl),
        n!(i32_rotr, I32Rotr),
        n!(i32_eq, I32Eq),
        n!(i32_eqz, I32Eqz),
        n!(i32_ne, I32Ne),
        n!(i32_lt_unsigned, I32LtU),
        n!(i32_lt_signed, I32LtS),
        n!(i32_gt_unsigned, I32GtU),
        n!(i32_gt_signed, I32GtS),
        n!(i32_lte_unsigned, I32LeU),
        n!(i32_lte_signed, I32LeS),
        n!(i32_gte_unsigned, I32GeU),
        n!(i32_gte_signed, I32GeS),
        n!(i32_wrap_i64, I32WrapI64),
        n!(i32_extend_8s, I32Extend8S),
        n!(i32_extend_16s, I32Extend16S),
        n!(i32_trunc_f32s, I32TruncF32S),
        n!(i32_trunc_f32u, I32TruncF32U),
        n!(i32_trunc_f64s, I32TruncF64S),
        n!(i32_trunc_f64u, I32TruncF64U),
        n!(i32_reinterpret_f32, I32ReinterpretF32),
        // ------------------------------------------------------------------ i64
        h!(i64_const, true, |b, i| { b.i64_const(i.q[0] as i64); },
            |i| vec![Instruction::I64Const(i.q[0] as i64)]),
        n!(i64_add, I64Add),
        n!(i64_sub, I64Sub),
        n!(i64_mul, I64Mul),
        n!(i64_div_signed, I64DivS),
        n!(i64_div_unsigned, I64DivU),
        n!(i64_rem_unsigned, I64RemU),
        n!(i64_rem_signed, I64RemS),
        n!(i64_and, I64And),
        n!(i64_or, I64Or),
        n!(i64_xor, I64Xor),
        n!(i64_shl, I64Shl),
        n!(i64_shr_signed, I64ShrS),
        n!(i64_shr_unsigned, I64ShrU),
        n!(i64_rotl, I64Rotl),
        n!(i64_rotr, I64Rotr),
        n!(i64_eq, I64Eq),
        n!(i64_eqz, I64Eqz),
        n!(i64_ne, I64Ne),
        n!(i64_lt_unsigned, I64LtU),
        n!(i64_lt_signed, I64LtS),
        n!(i64_gt_unsigned, I64GtU),
        n!(i64_gt_signed, I64GtS),
        n!(i64_lte_unsigned, I64LeU),
        n!(i64_lte_signed, I64LeS),
        n!(i64_gte_unsigned, I64GeU),
        n!(i64_gte_signed, I64GeS),
        n!(i64_extend_i32u, I64ExtendI32U),
        n!(i64_extend_i32s, I64ExtendI32S),
        n!(i64_trunc_f32s, I64TruncF32S),
        n!(i64_trunc_f32u, I64TruncF32U),
        n!(i64_trunc_f64s, I64TruncF64S),
        n!(i64_trunc_f64u, I64TruncF64U),
        n!(i64_reinterpret_f64, I64ReinterpretF64),
        // ------------------------------------------------------------------ f32
        h!(f32_const, true, |b, i| { b.f32_const(f32::from_bits(i.f32b)); },
            |i| vec![Instruction::F32Const(ex_f32(i.f32b))]),
        n!(f32_abs, F32Abs),
        n!(f32_ceil, F32Ceil),
        n!(f32_floor, F32Floor),
        n!(f32_trunc, F32Trunc),
        n!(f32_sqrt, F32Sqrt),
        n!(f32_add, F32Add),
        n!(f32_sub, F32Sub),
        n!(f32_mul, F32Mul),
        n!(f32_div, F32Div),
        n!(f32_min, F32Min),
        n!(f32_max, F32Max),
        n!(f32_eq, F32Eq),
        n!(f32_ne, F32Ne),
        n!(f32_gt, F32Gt),
        n!(f32_ge, F32Ge),
        n!(f32_lt, F32Lt),
        n!(f32_le, F32Le),
        n!(f32_convert_i32s, F32ConvertI32S),
        n!(f32_convert_i32u, F32ConvertI32U),
        n!(f32_convert_i64s, F32ConvertI64S),
        n!(f32_convert_i64u, F32ConvertI64U),
        n!(f32_demote_f64, F32DemoteF64),
        n!(f32_reinterpret_i32, F32ReinterpretI32),
        n!(f32_copysign, F32Copysign),
        // ------------------------------------------------------------------ f64
        h!(f64_const, true, |b, i| { b.f64_const(f64::from_bits(i.f64b)); },
            |i| vec![Instruction::F64Const(ex_f64(i.f64b))]),
        n!(f64_abs, F64Abs),
        n!(f64_ceil, F64Ceil),
        n!(f64_floor, F64Floor),
        n!(f64_trunc, F64Trunc),
        n!(f64_sqrt, F64Sqrt),
        n!(f64_add, F64Add),
        n!(f64_sub, F64Sub),
        n!(f64_mul, F64Mul),
        n!(f64_div, F64Div),
        n!(f64_min, F64Min),
        n!(f64_max, F64Max),
        n!(f64_eq, F64Eq),
        n!(f64_ne, F64Ne),
        n!(f64_gt, F64Gt),
        n!(f64_ge, F64Ge),
        n!(f64_lt, F64Lt),
        n!(f64_le, F64Le),
        n!(f64_reinterpret_i64, F64ReinterpretI64),
        n!(f64_promote_f32, F64PromoteF32),
        n!(f64_convert_i32s, F64ConvertI32S),
        n!(f64_convert_i32u, F64ConvertI32U),
        n!(f64_convert_i64s, F64ConvertI64S),
        n!(f64_convert_i64u, F64ConvertI64U),
        n!(f64_copysign, F64Copysign),
        // ------------------------------------------------------------------ memory / bulk memory
        // memory_init(data_index, mem)  => memory.init <mem> <data_index>
        h!(memory_init, true, |b, i| { b.memory_init(i.u[0], i.mem); },
            |i| vec![Instruction::MemoryInit { mem: i.mem, data_index: i.u[0] }]),
        h!(memory_size, true, |b, i| { b.memory_size(i.mem); },
            |i| vec![Instruction::MemorySize(i.mem)]),
        h!(memory_grow, true, |b, i| { b.memory_grow(i.mem); },
            |i| vec![Instruction::MemoryGrow(i.mem)]),
        h!(memory_fill, true, |b, i| { b.memory_fill(i.mem); },
            |i| vec![Instruction::MemoryFill(i.mem)]),
        // memory_copy(dst_mem, src_mem) => memory.copy <dst> <src>   (dst = mem, src = u[0])
        h!(memory_copy, true, |b, i| { b.memory_copy(i.mem, i.u[0]); },
            |i| vec![Instruction::MemoryCopy { src_mem: i.u[0], dst_mem: i.mem }]),
        h!(memory_discard, true, |b, i| { b.memory_discard(i.mem); },
            |i| vec![Instruction::MemoryDiscard(i.mem)]),
        x!(data_drop, DataDrop),
        n!(drop, Drop),
        // ------------------------------------------------------------------ loads / stores
        m!(i32_load8_s, I32Load8S),
        m!(i32_load8_u, I32Load8U),
        m!(i32_load16_s, I32Load16S),
        m!(i32_load16_u, I32Load16U),
        m!(i32_load, I32Load),
        m!(i32_store, I32Store),
        m!(i32_store8, I32Store8),
        m!(i32_store16, I32Store16),
        m!(i64_load8_s, I64Load8S),
        m!(i64_load8_u, I64Load8U),
        m!(i64_load16_s, I64Load16S),
        m!(i64_load16_u, I64Load16U),
        m!(i64_load32_s, I64Load32S),
        m!(i64_load32_u, I64Load32U),
        m!(i64_load, I64Load),
        m!(i64_store, I64Store),
        m!(f32_load, F32Load),
        m!(f32_store, F32Store),
        m!(f64_load, F64Load),
        m!(f64_store, F64Store),
        // ------------------------------------------------------------------ globals
        x!(global_get, GlobalID, GlobalGet),
        x!(global_set, GlobalID, GlobalSet),
        // ------------------------------------------------------------------ reference types / GC
        ht!(ref_null, RefNull),
        n!(ref_is_null, RefIsNull),
        x!(ref_func, RefFunc),
        n!(ref_eq, RefEq),
        n!(ref_as_non_null, RefAsNonNull),
        x!(struct_new, TypeID, StructNew),
        x!(struct_new_default, TypeID, StructNewDefault),
        h!(struct_get, true, |b, i| { b.struct_get(TypeID(i.u[0]), FieldID(i.u[1])); },
            |i| vec![Instruction::StructGet { struct_type_index: i.u[0], field_index: i.u[1] }]),
        h!(struct_get_s, true, |b, i| { b.struct_get_s(TypeID(i.u[0]), FieldID(i.u[1])); },
            |i| vec![Instruction::StructGetS { struct_type_index: i.u[0], field_index: i.u[1] }]),
        h!(struct_get_u, true, |b, i| { b.struct_get_u(TypeID(i.u[0]), FieldID(i.u[1])); },
            |i| vec![Instruction::StructGetU { struct_type_index: i.u[0], field_index: i.u[1] }]),
        h!(struct_set, true, |b, i| { b.struct_set(TypeID(i.u[0]), FieldID(i.u[1])); },
            |i| vec![Instruction::StructSet { struct_type_index: i.u[0], field_index: i.u[1] }]),
        x!(array_new, TypeID, ArrayNew),
        x!(array_new_default, TypeID, ArrayNewDefault),
        h!(array_new_fixed, true, |b, i| { b.array_new_fixed(TypeID(i.u[0]), i.u[1]); },
            |i| vec![Instruction::ArrayNewFixed { array_type_index: i.u[0], array_size: i.u[1] }]),
        h!(array_new_data, true,
            |b, i| { b.array_new_data(TypeID(i.u[0]), DataSegmentID(i.u[1])); },
            |i| vec![Instruction::ArrayNewData { array_type_index: i.u[0], array_data_index: i.u[1] }]),
        h!(array_new_elem, true,
            |b, i| { b.array_new_elem(TypeID(i.u[0]), ElementID(i.u[1])); },
            |i| vec![Instruction::ArrayNewElem { array_type_index: i.u[0], array_elem_index: i.u[1] }]),
        x!(array_get, TypeID, ArrayGet),
        x!(array_get_s, TypeID, ArrayGetS),
        x!(array_get_u, TypeID, ArrayGetU),
        x!(array_set, TypeID, ArraySet),
        n!(array_len, ArrayLen),
        x!(array_fill, TypeID, ArrayFill),
        // array_copy(dest, src) => array.copy <dest> <src>
        h!(array_copy, true, |b, i| { b.array_copy(TypeID(i.u[0]), TypeID(i.u[1])); },
            |i| vec![Instruction::ArrayCopy { array_type_index_dst: i.u[0], array_type_index_src: i.u[1] }]),
        h!(array_init_data, true,
            |b, i| { b.array_init_data(TypeID(i.u[0]), DataSegmentID(i.u[1])); },
            |i| vec![Instruction::ArrayInitData { array_type_index: i.u[0], array_data_index: i.u[1] }]),
        h!(array_init_elem, true,
            |b, i| { b.array_init_elem(TypeID(i.u[0]), ElementID(i.u[1])); },
            |i| vec![Instruction::ArrayInitElem { array_type_index: i.u[0], array_elem_index: i.u[1] }]),
        ht!(ref_test, RefTestNonNull),
        ht!(ref_test_null, RefTestNullable),
        ht!(ref_cast, RefCastNonNull),
        ht!(ref_cast_null, RefCastNullable),
        n!(any_convert_extern, AnyConvertExtern),
        n!(extern_convert_any, ExternConvertAny),
        n!(ref_i31, RefI31),
        n!(i31_get_s, I31GetS),
        n!(i31_get_u, I31GetU),
        // ------------------------------------------------------------------ MacroOpcode
        h!(u32_const, true, |b, i| { b.u32_const(i.u[0]); },
            |i| vec![Instruction::I32Const(i.u[0] as i32)]),
        h!(u64_const, true, |b, i| { b.u64_const(i.q[0]); },
            |i| vec![Instruction::I64Const(i.q[0] as i64)]),
    ]
}
