//! C16-C20: execution-based properties.  A generated terminating program (G-exec) is
//! instrumented through the library with stack-neutral probes (`i32.const id; call $log`),
//! original and instrumented module are run by the reference interpreter on the same
//! arguments, and (a) results / traps / memory / globals must agree, (b) the probe trace of
//! the instrumented module must equal, group by group, the event trace the monitor derives
//! from the *original* program's dynamic semantics.
use super::common::*;
use super::instr::*;
use crate::capture::mask;
use crate::dec::module as dm;
use crate::engine::*;
use crate::gen::{gen_module, Kind, Profile};
use crate::interp::{self, EvKind, Machine, Plan, Stop, Val};
use crate::tape::fnv;
use std::collections::{BTreeMap, BTreeSet};
use wasmparser::Operator;

#[derive(Clone, Copy, PartialEq, Eq, Debug)]
pub enum Focus {
    /// C16: all modes; behaviour preserved; before/after/alternate events on non-structural instructions
    Neutral,
    /// C17
    FuncEntryExit,
    /// C18
    BlockEntry,
    /// C19
    BlockExit,
    /// C20
    SemAfter,
}

pub struct ExecDriver {
    pub pid: &'static str,
    pub focus: Focus,
    pub rule_text: &'static str,
}

// not round numbers: generated programs log boundary values (powers of two, MIN/MAX)
const PROBE_BASE: i32 = 0x4A5B_0000;
const TICK_BASE: i32 = 0x5C6D_0000;

fn probe_payload(id: i32) -> Vec<Operator<'static>> {
    vec![Operator::I32Const { value: id }, Operator::Call { function_index: 0 }]
}

fn is_structural(op: &str) -> bool {
    matches!(dm::op_name(op), "Block" | "Loop" | "If" | "Else" | "End" | "TryTable" | "Try" | "Catch" | "CatchAll" | "Delegate")
}
fn is_branch(op: &str) -> bool {
    matches!(dm::op_name(op), "Br" | "BrIf" | "BrTable" | "BrOnNull" | "BrOnNonNull")
}
fn is_blockish(op: &str) -> bool {
    matches!(dm::op_name(op), "Block" | "Loop" | "If" | "Else")
}

/// the constructs a branch at `pc` targets (None = function label)
fn branch_targets(ops: &[String], st: &Structure, pc: usize) -> Vec<Option<usize>> {
    super::c15::branch_depths(&ops[pc])
        .into_iter()
        .map(|d| {
            let mut o = st.parent[pc];
            for _ in 0..d {
                o = match o {
                    Some(x) => st.parent[x],
                    None => return None,
                };
            }
            o
        })
        .collect()
}

fn gen_args(c: &mut Case, params: &[wasmparser::ValType]) -> Vec<Val> {
    params
        .iter()
        .map(|t| match t {
            wasmparser::ValType::I32 => Val::I32(c.t.i32v()),
            wasmparser::ValType::I64 => Val::I64(c.t.i64v()),
            wasmparser::ValType::F32 => Val::F32(c.t.f32bits()),
            wasmparser::ValType::F64 => Val::F64(c.t.f64bits()),
            _ => Val::Ref(None),
        })
        .collect()
}

type CallResult = Result<Vec<Val>, Stop>;

/// Compare the instrumented run's log with the monitor's expectation, group by group.
fn compare_traces(expected: &[(u64, i32)], actual: &[i32]) -> Result<(), String> {
    let mut i = 0usize; // index into actual
    let mut k = 0usize;
    while k < expected.len() {
        let m = expected[k].0;
        let mut grp: Vec<i32> = vec![];
        while k < expected.len() && expected[k].0 == m {
            grp.push(expected[k].1);
            k += 1;
        }
        if i + grp.len() > actual.len() {
            return Err(format!("after {} matching events the instrumented run stops reporting; expected next {:?} (one moment), got only {:?}", i, show(&grp), show(&actual[i..])));
        }
        let mut got: Vec<i32> = actual[i..i + grp.len()].to_vec();
        grp.sort();
        got.sort();
        if grp != got {
            return Err(format!("after {} matching events: expected the events {:?} (one moment, any order), the instrumented run reports {:?}", i, show(&grp), show(&actual[i..(i + grp.len() + 3).min(actual.len())])));
        }
        i += grp.len();
    }
    if i < actual.len() {
        return Err(format!("after all {} expected events the instrumented run reports more: {:?}", i, show(&actual[i..(i + 6).min(actual.len())])));
    }
    Ok(())
}
fn show(ids: &[i32]) -> Vec<String> {
    ids.iter()
        .map(|x| {
            if *x >= TICK_BASE {
                let v = x - TICK_BASE;
                format!("tick(f{},i{})", v >> 12, v & 0xfff)
            } else if *x >= PROBE_BASE {
                format!("probe#{}", x - PROBE_BASE)
            } else {
                format!("log({})", x)
            }
        })
        .collect()
}

impl Driver for ExecDriver {
    fn id(&self) -> &'static str {
        self.pid
    }
    fn rule(&self) -> &'static str {
        self.rule_text
    }
    fn tape_len(&self) -> usize {
        4096
    }
    fn cases(&self, tier: Tier) -> u64 {
        match tier {
            Tier::Quick => 24_000,
            Tier::Thorough => 1_000_000,
        }
    }
    fn assumptions(&self) -> Vec<&'static str> {
        vec![
            "the reference interpreter (harness/src/interp.rs) defines execution and the probe events; it is written from the WebAssembly semantics and the wording of C16-C20, shares no code with the library, and passes its conformance programs (checked at the start of every run)",
            "events of one moment (the start of one dynamic instruction, or its completion) are unordered among themselves; before/after events are only required on non-structural instructions",
            "NaN bit patterns of arithmetic results are whatever the host produces: both runs use the same interpreter",
        ]
    }
    fn run(&self, c: &mut Case) -> Outcome {
        // ---------------- program
        let mut profile = Profile::from_tape(&mut c.t);
        profile.multivalue |= c.t.bool();
        profile.tail |= c.t.bool();
        profile.exn |= c.t.chance(1, 3);
        profile.funcrefs |= c.t.chance(1, 3);
        profile.reftypes |= c.t.chance(1, 3);
        profile.bulk |= c.t.chance(1, 3);
        profile.multimem |= c.t.chance(1, 3);
        let mut cfg = steer_cfg(c, Kind::Exec, profile);
        cfg.max_funcs = 4;
        cfg.max_stmts = 5;
        cfg.max_depth = 4;
        let gm = gen_module(&mut c.t, &cfg);
        let bytes = gm.encode();
        if let Err(e) = dm::validate(&bytes) {
            c.gen_invalid();
            c.note(|| format!("GENERATOR BUG: {}\n{}", e, dm::print_wat(&bytes)));
            return Outcome::Discard("generator produced an invalid module");
        }
        let din = match dm::decode(&bytes) {
            Ok(d) => d,
            Err(e) => return fail("harness:decode", e),
        };
        let prog = match interp::load(&bytes) {
            Ok(p) => p,
            Err(e) => return fail("harness:interp-load", e),
        };
        let lf: Vec<u32> = (0..din.funcs.len() as u32).filter(|i| din.funcs[*i as usize].import.is_none()).collect();
        if lf.is_empty() || prog.exports.is_empty() {
            return Outcome::Discard("no local function");
        }
        // ---------------- calls
        let mut calls: Vec<(u32, Vec<Val>)> = vec![];
        for (_, f) in prog.exports.iter().take(4) {
            let (params, _) = &prog.types[prog.func_types[*f as usize] as usize];
            let n = c.t.range(1, 3);
            for _ in 0..n {
                calls.push((*f, gen_args(c, params)));
            }
        }
        // ---------------- plan
        let component = c.t.chance(1, 6);
        let ticks = self.focus != Focus::Neutral && c.t.bool();
        let mut plan: Vec<Inj> = vec![];
        let mut mon = Plan::default();
        let mut next_id = PROBE_BASE;
        let mut checked_ids: BTreeSet<i32> = BTreeSet::new();
        let mut triggers: Vec<&'static str> = vec![];
        let structures: BTreeMap<u32, Structure> = lf.iter().map(|f| (*f, structure(&din.funcs[*f as usize].ops))).collect();
        let pick_path = |c: &mut Case, special: bool| -> Path {
            let _ = special;
            if component {
                *c.t.pick(&[Path::CompCur, Path::CompInjectAt, Path::ModAt, Path::IterCur])
            } else {
                *c.t.pick(&[Path::IterCur, Path::IterInjectAt, Path::ModAt, Path::ModInjectAt])
            }
        };
        let n_inj = c.t.range(1, 8);
        let mut instrumented_sites: Vec<(u32, usize, IMode)> = vec![];
        // flag-guarded probe bodies that will be emitted behind one end: (function, opener) -> count
        let mut flagged_at: BTreeMap<(u32, usize), usize> = BTreeMap::new();
        for _ in 0..n_inj {
            // functions with structured control flow first: most probe kinds need a construct
            let with_ctl: Vec<u32> = lf.iter().copied().filter(|f| din.funcs[*f as usize].ops.iter().any(|o| is_blockish(o) || is_branch(o))).collect();
            let f = if !with_ctl.is_empty() && c.t.chance(3, 4) { *c.t.pick(&with_ctl) } else { *c.t.pick(&lf) };
            let ops = &din.funcs[f as usize].ops;
            let st = &structures[&f];
            let last = ops.len() - 1;
            // the mode under test three times out of four; otherwise a probe of any other mode
            // as background (its reports are not compared, but it shares the lowering machinery
            // with the probes under test and must not disturb them)
            let all: &[IMode] = &[IMode::Before, IMode::After, IMode::Alt, IMode::Before, IMode::After, IMode::SemAfter, IMode::BlockEntry, IMode::BlockExit, IMode::FuncEntry, IMode::FuncExit];
            let own: &[IMode] = match self.focus {
                Focus::Neutral => all,
                Focus::FuncEntryExit => &[IMode::FuncEntry, IMode::FuncExit],
                Focus::BlockEntry => &[IMode::BlockEntry],
                Focus::BlockExit => &[IMode::BlockExit],
                Focus::SemAfter => &[IMode::SemAfter],
            };
            let mode = if self.focus != Focus::Neutral && c.t.chance(1, 4) { *c.t.pick(all) } else { *c.t.pick(own) };
            let background = self.focus != Focus::Neutral && !own.contains(&mode);
            if mode.is_func_level() && plan.iter().any(|i| i.func == f && i.mode == mode) {
                continue;
            }
            let sites: Vec<usize> = (0..ops.len())
                .filter(|i| match mode {
                    // C16 checks before/after timing on non-structural instructions; probes on
                    // structural ones still have to preserve behaviour
                    IMode::Before => true,
                    IMode::After => *i != last,
                    IMode::Alt => !is_structural(&ops[*i]) && dm::op_name(&ops[*i]) != "BrTable",
                    IMode::BlockEntry | IMode::BlockExit => is_blockish(&ops[*i]),
                    IMode::SemAfter => {
                        let n = dm::op_name(&ops[*i]);
                        if is_branch(&ops[*i]) {
                            // branches that target a loop label are outside C20
                            branch_targets(ops, st, *i).iter().all(|t| match t {
                                Some(o) => dm::op_name(&ops[*o]) != "Loop",
                                None => true,
                            })
                        } else {
                            matches!(n, "Block" | "If" | "Else")
                        }
                    }
                    _ => true,
                })
                .collect();
            if sites.is_empty() {
                continue;
            }
            let at = if mode.is_func_level() { 0 } else { *c.t.pick(&sites) };
            if !mode.is_func_level() && matches!(mode, IMode::BlockEntry | IMode::BlockExit | IMode::SemAfter | IMode::Alt) && plan.iter().any(|i| i.func == f && i.instr == at && i.mode == mode) {
                continue;
            }
            // ---- known classes
            if mode == IMode::SemAfter && is_branch(&ops[at]) {
                let tg = branch_targets(ops, st, at);
                if tg.iter().any(|t| t.is_none()) {
                    if c.avoid("semantic_after_branch_to_function_label") {
                        c.steered("semantic_after_branch_to_function_label");
                        continue;
                    }
                    triggers.push("semantic_after_branch_to_function_label");
                }
                // three or more flag-guarded bodies behind one end are chained `if .. else .. else`
                let mut add: BTreeMap<(u32, usize), usize> = BTreeMap::new();
                for t in tg.iter().flatten() {
                    *add.entry((f, *t)).or_default() += 1;
                }
                if add.iter().any(|(k, n)| flagged_at.get(k).copied().unwrap_or(0) + n >= 3) {
                    if c.avoid("semantic_after_three_flagged_bodies_one_end") {
                        c.steered("semantic_after_three_flagged_bodies_one_end");
                        continue;
                    }
                    triggers.push("semantic_after_three_flagged_bodies_one_end");
                }
                for (k, n) in add {
                    *flagged_at.entry(k).or_default() += n;
                }
                // the flag of a taken branch is never cleared: any later arrival behind one of
                // its targets in the same activation fires again.  Safe shapes: every target is
                // entered afresh each time the branch can run (the branch sits in the
                // straight-line prefix of each target's body, outside any loop inside it).
                let stale_risk = tg.iter().flatten().any(|o| {
                    // a loop between the target opener and the branch, or the branch not in
                    // the straight-line prefix (some construct opens between opener and branch)
                    (*o + 1..at).any(|i| is_open(&ops[i]) || dm::op_name(&ops[i]) == "Else")
                }) || tg.iter().flatten().collect::<BTreeSet<_>>().len() > 1
                    || st.parent[at].map(|p| (0..ops.len()).any(|i| dm::op_name(&ops[i]) == "Loop" && i < p && st.end_of.get(&i).map(|e| *e > at).unwrap_or(false))).unwrap_or(false)
                    || (0..at).any(|i| dm::op_name(&ops[i]) == "Loop" && st.end_of.get(&i).map(|e| *e > at).unwrap_or(false));
                if stale_risk {
                    if c.avoid("semantic_after_branch_flag_not_cleared") {
                        c.steered("semantic_after_branch_flag_not_cleared");
                        continue;
                    }
                    triggers.push("semantic_after_branch_flag_not_cleared");
                }
            }
            let id = next_id;
            next_id += 1;
            let payload = match mode {
                IMode::Alt => {
                    // replacement = report, then the same instruction
                    let Some(interp::Func::Local(code)) = prog.funcs.get(f as usize) else { continue };
                    let mut p = probe_payload(id);
                    // SAFETY: the operator is not a br_table (no borrowed data); the lifetime is nominal
                    let op: Operator<'static> = unsafe { std::mem::transmute::<Operator<'_>, Operator<'static>>(code.ops[at].clone()) };
                    p.push(op);
                    p
                }
                _ => probe_payload(id),
            };
            let path = pick_path(c, mode.is_special());
            // what the monitor has to expect
            let structural = is_structural(&ops[at]);
            let ev = match mode {
                IMode::Before | IMode::Alt => (!structural).then_some(EvKind::Before),
                IMode::After => (!structural).then_some(EvKind::After),
                IMode::FuncEntry => Some(EvKind::FuncEntry),
                IMode::FuncExit => Some(EvKind::FuncExit),
                IMode::BlockEntry => Some(EvKind::BlockEntry),
                IMode::BlockExit => Some(EvKind::BlockExit),
                IMode::SemAfter => Some(EvKind::SemAfter),
                _ => None,
            };
            let checked = match self.focus {
                Focus::Neutral => matches!(mode, IMode::Before | IMode::After | IMode::Alt) && !structural,
                _ => !background,
            };
            if background {
                c.class("background_probe_of_another_mode");
            }
            if checked {
                if let Some(k) = ev {
                    mon.add(f, at, k, id);
                    checked_ids.insert(id);
                }
            }
            instrumented_sites.push((f, at, mode));
            plan.push(Inj { func: f, instr: at, mode, path, payload, marker: id });
        }
        if plan.is_empty() {
            return Outcome::Discard("empty plan");
        }
        if ticks {
            for f in &lf {
                let ops = &din.funcs[*f as usize].ops;
                for (i, op) in ops.iter().enumerate() {
                    if is_structural(op) || i > 0xfff || *f > 0xff {
                        continue;
                    }
                    let id = TICK_BASE + ((*f as i32) << 12) + i as i32;
                    let path = if component { Path::CompCur } else { Path::IterCur };
                    plan.push(Inj { func: *f, instr: i, mode: IMode::Before, path, payload: probe_payload(id), marker: id });
                    mon.add(*f, i, EvKind::Before, id);
                    checked_ids.insert(id);
                }
            }
        }
        order_plan(&mut plan);
        let plan_txt = plan
            .iter()
            .filter(|i| i.marker < TICK_BASE)
            .map(|i| format!("  func {} instr {} ({}) {} via {} probe#{}", i.func, i.instr, din.funcs[i.func as usize].ops[i.instr], i.mode.name(), i.path.name(), i.marker - PROBE_BASE))
            .collect::<Vec<_>>()
            .join("\n");
        c.note(|| {
            format!(
                "PROGRAM (component wrapper: {}, ticks on every non-structural instruction: {})\n{}\nPLAN\n{}\nCALLS\n{}",
                component,
                ticks,
                dm::print_wat(&bytes),
                plan_txt,
                calls.iter().map(|(f, a)| format!("  func {} {:?}", f, a)).collect::<Vec<_>>().join("\n")
            )
        });
        let by_trigger = |o: Outcome| -> Outcome {
            let Some(t) = triggers.first() else { return o };
            match o {
                // an output that does not validate is the mark of the if..else..else chain
                Outcome::Fail(f) if f.sig.starts_with("invalid-output") && triggers.contains(&"semantic_after_three_flagged_bodies_one_end") => {
                    fail("class:semantic_after_three_flagged_bodies_one_end", format!("[{}] {}", f.sig, f.detail))
                }
                Outcome::Fail(f) => fail(format!("class:{}", t), format!("[{}] {}", f.sig, f.detail)),
                other => other,
            }
        };
        // ---------------- instrument
        // one time in four the module is encoded twice and the second encoding is executed
        let encodes = if c.t.chance(1, 4) { 2 } else { 1 };
        if encodes == 2 {
            c.class("second_encoding_executed");
        }
        // one time in four (module paths) an import is added first: every local function index
        // shifts while the probes are lowered (host.log stays function 0)
        let pre: Vec<PreEdit> = if !component && c.t.chance(1, 4) {
            c.class("pre_edit:add_import_func");
            vec![PreEdit::AddImportFunc(0)]
        } else {
            vec![]
        };
        // (a second encode after a re-indexing edit is C05's known finding: one encode then)
        let encodes = if pre.is_empty() { encodes } else { 1 };
        let ap = match run_plan_edit(&bytes, &plan, true, encodes, &pre) {
            Ok(a) => a,
            Err(o) => return by_trigger(o),
        };
        if let Some((i, msg)) = ap.rejected.iter().enumerate().find_map(|(i, r)| r.as_ref().map(|m| (i, m.clone()))) {
            return by_trigger(fail(format!("probe-rejected:{}:{}", plan[i].mode.name(), plan[i].path.name()), format!("injection {:?} panicked at the call: {}", plan[i], msg)));
        }
        if let Err(e) = dm::validate(&ap.out) {
            c.note(|| format!("OUTPUT\n{}", dm::print_wat(&ap.out)));
            return by_trigger(fail(format!("invalid-output:{}", mask(e.split(" (at offset").next().unwrap_or(&e), 50)), e));
        }
        let prog2 = match interp::load(&ap.out) {
            Ok(p) => p,
            Err(e) => return by_trigger(fail("instrumented-module-outside-interpreted-subset", e)),
        };
        // ---------------- run both
        let budget = 30_000u64;
        let m1 = Machine::instantiate(&prog, Some(&mon), budget);
        let m2 = Machine::instantiate(&prog2, None, budget * 40);
        let (mut m1, mut m2) = match (m1, m2) {
            (Ok(a), Ok(b)) => (a, b),
            (Err(Stop::OutOfBudget), _) => return Outcome::Discard("original start function exceeds the step budget"),
            (Err(Stop::Unsupported(_)), _) => return Outcome::Discard("outside the interpreted subset"),
            (Err(a), Err(b)) if a == b => return Outcome::Discard("instantiation traps in both"),
            (a, b) => {
                return by_trigger(fail("instantiation-differs", format!("original: {:?}, instrumented: {:?}", a.as_ref().err(), b.as_ref().err())));
            }
        };
        let mut outcomes: Vec<&'static str> = vec![];
        for (k, (f, args)) in calls.iter().enumerate() {
            m1.log.clear();
            m1.expected.clear();
            m2.log.clear();
            let r1: CallResult = m1.call(*f, args.clone());
            // the same export in the instrumented module (its function index may have shifted)
            let name = prog.exports.iter().find(|(_, g)| g == f).map(|(n, _)| n.as_str()).unwrap_or("");
            let Some(f2) = prog2.exports.iter().find(|(n, _)| n == name).map(|(_, g)| *g) else {
                return by_trigger(fail("export-missing", format!("export {:?} of the original is missing in the instrumented module", name)));
            };
            let r2: CallResult = m2.call(f2, args.clone());
            match &r1 {
                Err(Stop::OutOfBudget) => return Outcome::Discard("original exceeds the step budget"),
                Err(Stop::Unsupported(_)) => return Outcome::Discard("outside the interpreted subset"),
                Ok(_) => outcomes.push("return"),
                Err(Stop::Trap(_)) => outcomes.push("trap"),
                Err(Stop::Exception(_)) => outcomes.push("exception"),
            }
            if r1 != r2 {
                c.note(|| format!("OUTPUT\n{}", dm::print_wat(&ap.out)));
                return by_trigger(fail(
                    format!("result-differs:{}", match (&r1, &r2) {
                        (Ok(_), Ok(_)) => "values",
                        (Ok(_), Err(_)) => "instrumented-traps",
                        (Err(_), Ok(_)) => "instrumented-returns",
                        _ => "trap-kind",
                    }),
                    format!("call #{} func {} {:?}: original {:?}, instrumented {:?}", k, f, args, r1, r2),
                ));
            }
            if m1.globals != m2.globals {
                return by_trigger(fail("state-differs:globals", format!("after call #{}: original {:?}, instrumented {:?}", k, m1.globals, m2.globals)));
            }
            if m1.mems != m2.mems {
                let which = m1.mems.iter().zip(m2.mems.iter()).position(|(a, b)| a != b);
                return by_trigger(fail("state-differs:memory", format!("after call #{}: memory {:?} differs", k, which)));
            }
            // generated log calls of the original must not look like probe ids
            if m1.expected.iter().any(|(_, v)| *v >= PROBE_BASE && !checked_ids.contains(v)) {
                return Outcome::Discard("program logs a value in the probe id range");
            }
            let actual: Vec<i32> = m2.log.iter().copied().filter(|v| *v < PROBE_BASE || checked_ids.contains(v)).collect();
            if let Err(e) = compare_traces(&m1.expected, &actual) {
                c.note(|| format!("OUTPUT\n{}", dm::print_wat(&ap.out)));
                // name the kind of the first offending probe
                let kind = first_mismatch_kind(&m1.expected, &actual, &plan);
                return by_trigger(fail(format!("trace-differs:{}", kind), format!("call #{} func {} {:?} ({:?}): {}", k, f, args, r1.as_ref().map(|_| "returns").unwrap_or("stops"), e)));
            }
        }
        // ---------------- classes and non-triviality
        for o in &outcomes {
            c.class(&format!("outcome:{}", o));
        }
        c.class(if ticks { "ticks:on" } else { "ticks:off" });
        for i in plan.iter().filter(|i| i.marker < TICK_BASE) {
            c.class(&format!("mode:{}", i.mode.name()));
        }
        for ((_, k), n) in &m1.exit_kinds {
            c.class_n(&format!("exit:{}", k), *n);
        }
        let fired_any = m1.fired.values().sum::<u64>() > 0;
        let fp = fnv(&bytes) ^ fnv(plan_txt.as_bytes()) ^ fnv(format!("{:?}", calls).as_bytes());
        let nt = match self.focus {
            Focus::Neutral => fired_any && (m1.taken_branches >= 1 || m1.calls >= 1),
            Focus::FuncEntryExit => instrumented_sites.iter().any(|(f, _, m)| {
                *m == IMode::FuncExit && ["return", "tail_call", "branch_to_function_label_from_depth_ge_2"].iter().any(|k| m1.exit_kinds.get(&(*f, *k)).copied().unwrap_or(0) > 0)
            }),
            Focus::BlockEntry => instrumented_sites.iter().any(|(f, at, _)| {
                let op = dm::op_name(&din.funcs[*f as usize].ops[*at]);
                (op == "Loop" && m1.loop_iterations.get(&(*f, *at)).copied().unwrap_or(0) >= 2) || (op == "Else" && m1.fired_sites.get(&(*f, *at, EvKind::BlockEntry)).copied().unwrap_or(0) >= 1)
            }),
            Focus::BlockExit => instrumented_sites.iter().any(|(f, at, _)| {
                let ops = &din.funcs[*f as usize].ops;
                let st = &structures[f];
                let opener = if dm::op_name(&ops[*at]) == "Else" { st.if_of_else[at].0 } else { *at };
                let left = m1.left_by_branch.contains(&(*f, opener));
                let nested_if_fell = dm::op_name(&ops[*at]) == "If" && m1.fired_sites.get(&(*f, *at, EvKind::BlockExit)).copied().unwrap_or(0) >= 1 && {
                    let end = st.else_of.get(at).copied().unwrap_or_else(|| st.end_of[at]);
                    (*at + 1..end).any(|i| is_open(&ops[i]))
                };
                left || nested_if_fell
            }),
            Focus::SemAfter => instrumented_sites.iter().any(|(f, at, _)| {
                let ops = &din.funcs[*f as usize].ops;
                let st = &structures[f];
                if is_branch(&ops[*at]) {
                    branch_targets(ops, st, *at).iter().flatten().any(|o| {
                        let causes = m1.arrivals.get(&(*f, *o));
                        causes.map(|s| s.contains(at) && s.len() >= 2).unwrap_or(false)
                    })
                } else {
                    // a construct probe that fired after a branch out of the construct
                    let opener = if dm::op_name(&ops[*at]) == "Else" { st.if_of_else[at].0 } else { *at };
                    m1.arrivals.get(&(*f, opener)).map(|s| s.iter().any(|x| *x != usize::MAX)).unwrap_or(false)
                }
            }),
        };
        if nt {
            c.nontrivial(fp);
        }
        Outcome::Pass
    }
    fn extra(&self, _tier: Tier, st: &mut Stats, _hz: &Hazards, out: &mut Vec<Violation>, _findings: &Findings) {
        // the oracle's own conformance programs
        match conformance() {
            Ok(n) => *st.classes.entry("interpreter_conformance_programs_passed".into()).or_default() = n as u64,
            Err(e) => out.push(Violation { sig: "harness:interpreter-conformance".into(), detail: e, tape: vec![], mode: Mode::Main, rendered: String::new() }),
        }
    }
}

fn first_mismatch_kind(expected: &[(u64, i32)], actual: &[i32], plan: &[Inj]) -> String {
    // multiset difference: the probe kinds whose counts differ
    let mut cnt: BTreeMap<i32, i64> = BTreeMap::new();
    for (_, id) in expected {
        *cnt.entry(*id).or_default() += 1;
    }
    for id in actual {
        *cnt.entry(*id).or_default() -= 1;
    }
    let mut kinds: BTreeSet<String> = BTreeSet::new();
    for (id, n) in cnt {
        if n == 0 {
            continue;
        }
        let dir = if n > 0 { "missing" } else { "extra" };
        if id >= TICK_BASE {
            kinds.insert(format!("tick-{}", dir));
        } else if let Some(i) = plan.iter().find(|i| i.marker == id) {
            kinds.insert(format!("{}-{}", i.mode.name(), dir));
        } else {
            kinds.insert(format!("log-{}", dir));
        }
    }
    if kinds.is_empty() {
        "order".to_string()
    } else {
        kinds.into_iter().next().unwrap()
    }
}

/// Hand-computed programs for the interpreter itself.
pub fn conformance() -> Result<usize, String> {
    let progs: Vec<(&str, &str, Vec<Val>, Result<Vec<Val>, &'static str>)> = vec![
        ("(module (func (export \"f\") (param i32) (result i32) (local i32) (local.set 1 (i32.const 1)) (block (loop (br_if 1 (i32.eqz (local.get 0))) (local.set 1 (i32.mul (local.get 1) (local.get 0))) (local.set 0 (i32.sub (local.get 0) (i32.const 1))) (br 0))) (local.get 1)))", "f", vec![Val::I32(5)], Ok(vec![Val::I32(120)])),
        ("(module (func (export \"f\") (param i32 i32) (result i32) (i32.div_s (local.get 0) (local.get 1))))", "f", vec![Val::I32(i32::MIN), Val::I32(-1)], Err("integer overflow")),
        ("(module (func (export \"f\") (param i32 i32) (result i32) (i32.rem_s (local.get 0) (local.get 1))))", "f", vec![Val::I32(i32::MIN), Val::I32(-1)], Ok(vec![Val::I32(0)])),
        ("(module (func (export \"f\") (param i32 i32) (result i32) (i32.div_u (local.get 0) (local.get 1))))", "f", vec![Val::I32(7), Val::I32(0)], Err("integer divide by zero")),
        ("(module (memory 1) (func (export \"f\") (param i32) (result i32) (i32.store16 (i32.const 65534) (local.get 0)) (i32.load16_s (i32.const 65534))))", "f", vec![Val::I32(0x1_8001)], Ok(vec![Val::I32(-32767)])),
        ("(module (memory 1) (func (export \"f\") (param i32) (result i32) (i32.load (local.get 0))))", "f", vec![Val::I32(65533)], Err("out of bounds memory access")),
        ("(module (func (export \"f\") (param i32) (result i32) (block (block (block (br_table 0 1 2 (local.get 0))) (return (i32.const 10))) (return (i32.const 20))) (i32.const 30)))", "f", vec![Val::I32(1)], Ok(vec![Val::I32(20)])),
        ("(module (func (export \"f\") (param i32) (result i32) (block (block (block (br_table 0 1 2 (local.get 0))) (return (i32.const 10))) (return (i32.const 20))) (i32.const 30)))", "f", vec![Val::I32(77)], Ok(vec![Val::I32(30)])),
        ("(module (func (export \"f\") (param f32) (result i32) (i32.trunc_f32_s (local.get 0))))", "f", vec![Val::F32(0x4f00_0000)], Err("integer overflow")),
        ("(module (func (export \"f\") (param f32) (result i32) (i32.trunc_sat_f32_s (local.get 0))))", "f", vec![Val::F32(0x7fc0_0000)], Ok(vec![Val::I32(0)])),
        ("(module (func (export \"f\") (param f64) (result f64) (f64.nearest (local.get 0))))", "f", vec![Val::F64(2.5f64.to_bits())], Ok(vec![Val::F64(2.0f64.to_bits())])),
        ("(module (func (export \"f\") (param f64) (result f64) (f64.nearest (local.get 0))))", "f", vec![Val::F64((-0.4f64).to_bits())], Ok(vec![Val::F64((-0.0f64).to_bits())])),
        ("(module (func (export \"f\") (param f32 f32) (result f32) (f32.min (local.get 0) (local.get 1))))", "f", vec![Val::F32(0), Val::F32(0x8000_0000)], Ok(vec![Val::F32(0x8000_0000)])),
        ("(module (type $t (func (param i32) (result i32))) (table 2 funcref) (elem (i32.const 0) $a $b) (func $a (param i32) (result i32) (i32.add (local.get 0) (i32.const 1))) (func $b (param i32) (result i32) (i32.shl (local.get 0) (i32.const 33))) (func (export \"f\") (param i32) (result i32) (call_indirect (type $t) (local.get 0) (i32.const 1))))", "f", vec![Val::I32(3)], Ok(vec![Val::I32(6)])),
        ("(module (table 2 funcref) (func (export \"f\") (result i32) (call_indirect (result i32) (i32.const 1))))", "f", vec![], Err("uninitialized element")),
        ("(module (func $g (param i64) (result i64) (i64.rotl (local.get 0) (i64.const 65))) (func (export \"f\") (param i64) (result i64) (return_call $g (local.get 0))))", "f", vec![Val::I64(i64::MIN)], Ok(vec![Val::I64(1)])),
        ("(module (func (export \"f\") (param i32) (result i32 i32) (if (result i32 i32) (local.get 0) (then (i32.const 1) (i32.const 2)) (else (i32.const 3) (i32.const 4)))))", "f", vec![Val::I32(0)], Ok(vec![Val::I32(3), Val::I32(4)])),
        ("(module (memory 1 2) (func (export \"f\") (result i32) (drop (memory.grow (i32.const 1))) (memory.grow (i32.const 1))))", "f", vec![], Ok(vec![Val::I32(-1)])),
        ("(module (global $g (mut i64) (i64.const 5)) (func (export \"f\") (param i64) (result i64) (global.set $g (i64.add (global.get $g) (local.get 0))) (global.get $g)))", "f", vec![Val::I64(-6)], Ok(vec![Val::I64(-1)])),
        ("(module (func (export \"f\") (param i64) (result f32) (f32.convert_i64_u (local.get 0))))", "f", vec![Val::I64(-1)], Ok(vec![Val::F32(0x5f80_0000)])),
    ];
    let n = progs.len();
    for (k, (src, name, args, want)) in progs.into_iter().enumerate() {
        let bytes = wat::parse_str(src).map_err(|e| format!("conformance program {}: {}", k, e))?;
        let prog = interp::load(&bytes)?;
        let mut m = Machine::instantiate(&prog, None, 100_000).map_err(|e| format!("conformance program {}: {:?}", k, e))?;
        let f = prog.exports.iter().find(|(n, _)| n == name).map(|(_, f)| *f).ok_or("export")?;
        let got = m.call(f, args);
        let ok = match (&got, &want) {
            (Ok(a), Ok(b)) => a == b,
            (Err(Stop::Trap(a)), Err(b)) => a == b,
            _ => false,
        };
        if !ok {
            return Err(format!("conformance program {} ({}): expected {:?}, interpreter gives {:?}", k, src, want, got));
        }
    }
    Ok(n)
}

const RULE_COMMON: &str = "tape -> G-exec program (terminating by construction: counter-guarded loops, acyclic call graph; i32/i64/f32/f64, locals, globals, 1-2 memories with loads/stores/size/grow/fill/copy/init, block/loop/if/else with empty, single and multi-value types, br/br_if/br_table over several depths incl. the function label, return, call, call_indirect, return_call, guarded unreachable, throw, br_on_null/non_null; every function exported) -> 1-3 argument vectors per export (boundary-biased) -> plan of 1-8 probes `i32.const id; call $log` through ModuleIterator / inject_at / FunctionModifier / (1 in 6) ComponentIterator; in half of the cases a before-`tick` probe on every non-structural instruction as well -> encode -> output validates -> original (with the monitor) and instrumented module run in the reference interpreter: results, traps/exceptions, globals and memories equal after every call, and the instrumented run's log equals the monitor's event list group by group (events of one moment in any order). ";

pub fn c16() -> ExecDriver {
    ExecDriver { pid: "C16", focus: Focus::Neutral, rule_text: "tape -> G-exec program (terminating by construction: counter-guarded loops, acyclic call graph; numeric ops incl. trapping div/rem/trunc, locals, globals, 1-2 memories with loads/stores/size/grow/fill/copy/init, block/loop/if/else with empty, single and multi-value types, br/br_if/br_table over several depths incl. the function label, return, call, call_indirect, return_call, guarded unreachable, throw, br_on_null/non_null; every function exported) -> 1-3 boundary-biased argument vectors per export -> plan of 1-8 stack-neutral probes `i32.const id; call $log` over ALL modes (before, after, alternate = report + same instruction, semantic-after, block-entry, block-exit, function entry/exit) on any instruction, through every API path -> encode -> output validates -> original (with the monitor) and instrumented module run in the reference interpreter: results, traps/exceptions, globals and all memories equal after every call; the before/after/alternate probes on non-structural instructions report exactly at the monitor's moments (about to execute; completed without branching away). Non-trivial: >=1 checked probe fired and the run took >=1 branch or call. Distinct = hash(program, plan, calls)." }
}
pub fn c17() -> ExecDriver {
    ExecDriver { pid: "C17", focus: Focus::FuncEntryExit, rule_text: concat!("tape -> G-exec program (terminating by construction: counter-guarded loops, acyclic call graph; i32/i64/f32/f64, locals, globals, memories, block/loop/if/else incl. multi-value, br/br_if/br_table over several depths incl. the function label, return, call, call_indirect, return_call, guarded unreachable, throw; every function exported) -> 1-3 argument vectors per export -> function entry / exit probes `i32.const id; call $log` on random functions through every API path; in half of the cases a before-tick on every non-structural instruction -> encode -> validates -> reference interpreter on original (monitor) and instrumented module: same results/traps/state, and the log equals the monitor's events group by group. ", "Monitor: entry once per activation before the first instruction; exit once per normal return (falling off the end, return, taken branch to the function label, tail call) and once immediately before an explicit unreachable or throw; none when a trap or exception unwinds the frame. Non-trivial: an activation of a function with an exit probe leaves through return, a tail call, or a branch to the function label from depth >= 2.") }
}
pub fn c18() -> ExecDriver {
    ExecDriver { pid: "C18", focus: Focus::BlockEntry, rule_text: concat!("tape -> G-exec program with nested block/loop/if/else (terminating by construction) -> 1-3 argument vectors per export -> block-entry probes on a random subset of block / loop / if / else instructions through every API path; ticks on every non-structural instruction in half of the cases -> encode -> validates -> reference interpreter on original (monitor) and instrumented module: same results/traps/state and log == monitor events group by group. ", "Monitor: block: when the block is entered; loop: on entry and on every branch back to the loop label; if: when the condition is true; else: when the condition is false. Non-trivial: an instrumented loop iterates >= 2 times or an instrumented else-arm is entered.") }
}
pub fn c19() -> ExecDriver {
    ExecDriver { pid: "C19", focus: Focus::BlockExit, rule_text: concat!("tape -> G-exec program with constructs nested inside if-arms (terminating by construction) -> 1-3 argument vectors per export -> block-exit probes on a random subset of block / loop / if / else instructions; ticks in half of the cases -> encode -> validates -> reference interpreter on original (monitor) and instrumented module: same results/traps/state and log == monitor events group by group. ", "Monitor: block / loop / else: each time the body falls through to its end; if: each time the then-arm falls through to its else or end; never when the construct is left by a branch. Non-trivial: an instrumented construct is left by a taken branch, or an instrumented if whose then-arm contains a nested construct falls through.") }
}
pub fn c20() -> ExecDriver {
    ExecDriver { pid: "C20", focus: Focus::SemAfter, rule_text: concat!("tape -> G-exec program with branches inside loops and br_table fans over several depths (terminating by construction) -> 1-3 argument vectors per export -> semantic-after probes on a random subset of block / if / else instructions and of br / br_if / br_table / br_on_* instructions none of whose targets is a loop; ticks in half of the cases -> encode -> validates -> reference interpreter on original (monitor) and instrumented module: same results/traps/state and log == monitor events group by group. ", "Monitor: construct: each time control reaches the instruction behind the construct (fall-through or branch to its label); branch: exactly once per execution - on arrival behind the target when taken, immediately when a conditional branch falls through. Non-trivial: a target end is reached in one run both via the instrumented branch and via another path (or an instrumented construct is left by a branch). Listed known findings: branch to the function label; flag of a taken branch never cleared (main domain keeps branches whose every execution enters the target afresh).") }
}

#[allow(dead_code)]
fn _unused(_: &str) -> &str {
    RULE_COMMON
}
