//! C12 (built functions), C13 (added types), C14 (added locals), C28 (custom sections).
use super::common::*;
use super::edit::{dt, type_debug};
use crate::capture::{mask, run_lib};
use crate::dec::module as dm;
use crate::engine::*;
use crate::gen::{gen_module, GComposite, GType, Kind, Profile, Storage, VT};
use crate::tape::fnv;
use wirm::ir::function::FunctionBuilder;
use wirm::ir::id::{CustomSectionID, FunctionID, ModuleID, TypeID};
use wirm::ir::types::CustomSection;
use wirm::module_builder::AddLocal;
use wirm::opcode::Inject;
use wirm::DataType;

fn gen_base_n(c: &mut Case, reserve_last: bool, need_funcs: bool) -> Option<(crate::gen::GModule, Vec<u8>)> {
    let mut profile = Profile::from_tape(&mut c.t);
    if c.t.chance(1, 2) {
        profile.gc = true;
    }
    let mut cfg = steer_cfg(c, Kind::Static, profile);
    cfg.reserve_last = reserve_last;
    // C12 and C14 need a local function; C13 and C28 also run on modules without code
    cfg.min_funcs = need_funcs as usize;
    let m = gen_module(&mut c.t, &cfg);
    let bytes = m.encode();
    if let Err(e) = dm::validate(&bytes) {
        c.gen_invalid();
        c.note(|| format!("GENERATOR BUG: {}\n{}", e, dm::print_wat(&bytes)));
        return None;
    }
    Some((m, bytes))
}

fn flat_trivial(d: &dm::Dec) -> dm::Flat {
    dm::flatten(d, &dm::Ids::trivial(d), &dm::FlatOpts { by_identity: false, include_names: true, include_customs: true })
}

fn diff_fail(a: &dm::Flat, b: &dm::Flat, what: &str) -> Option<Outcome> {
    let diffs = dm::all_diffs(a, b, 20);
    if diffs.is_empty() {
        return None;
    }
    Some(Outcome::FailMany(
        diffs
            .iter()
            .map(|(k, e, o)| Fail { sig: format!("{}:{}", what, dm::path_class(k)), detail: format!("{}: expected {:?}, output has {:?}", k, e, o) })
            .collect(),
    ))
}

fn gen_base(c: &mut Case, reserve_last: bool) -> Option<(crate::gen::GModule, Vec<u8>)> {
    gen_base_n(c, reserve_last, false)
}

// ------------------------------------------------------------------------------------ C12
pub struct BuiltFunctions;

impl Driver for BuiltFunctions {
    fn id(&self) -> &'static str {
        "C12"
    }
    fn rule(&self) -> &'static str {
        "tape -> valid G-static module M whose last local function F is referenced by nothing -> base = M without F -> F is rebuilt through FunctionBuilder (signature, add_local per local with the returned LocalID checked, every instruction injected as an Operator, optional set_name), finish_module (one time in four: the base wrapped in a component and finish_component(comp, ModuleID(0)), the module taken out of the encoded component), optional export on the returned ID -> encode -> validate -> the decoded output must equal the decoded M (which contains F natively) in every entity, plus the name/export requested. Non-trivial: F has >=1 local and >=3 instructions and the base has other content (>=1 other function or an export added). Distinct = hash of M."
    }
    fn tape_len(&self) -> usize {
        3072
    }
    fn cases(&self, tier: Tier) -> u64 {
        match tier {
            Tier::Quick => 40_000,
            Tier::Thorough => 2_000_000,
        }
    }
    fn assumptions(&self) -> Vec<&'static str> {
        vec!["wasmparser validator/decoder; the expected module is the generator's own encoding of the same function"]
    }
    fn run(&self, c: &mut Case) -> Outcome {
        let Some((gm, full)) = gen_base_n(c, true, true) else { return Outcome::Discard("generator produced an invalid module") };
        if gm.funcs.is_empty() {
            return Outcome::Discard("no local function to rebuild");
        }
        let n_fimp = gm.n_func_imports();
        let last_idx = (n_fimp + gm.funcs.len() - 1) as u32;
        let mut base = gm.clone();
        let f = base.funcs.pop().unwrap();
        // names of the removed function do not belong to the base
        let mut fname: Option<String> = None;
        if let Some(n) = base.names.as_mut() {
            if let Some(pos) = n.funcs.iter().position(|(i, _)| *i == last_idx) {
                fname = Some(n.funcs.remove(pos).1);
            }
            n.locals.retain(|(i, _)| *i != last_idx);
            n.labels.retain(|(i, _)| *i != last_idx);
        }
        if base.funcs.is_empty() {
            base.names_early = false;
        }
        let base_bytes = base.encode();
        if dm::validate(&base_bytes).is_err() {
            c.gen_invalid();
            return Outcome::Discard("base without the reserved function is invalid");
        }
        let (params, results) = match &gm.types[f.ty as usize].comp {
            GComposite::Func { params, results } => (params.clone(), results.clone()),
            _ => unreachable!(),
        };
        // the builder is given parameter and result types only: an open or derived function
        // type cannot be requested through it, so such a function is not a rebuild target
        if !gm.types[f.ty as usize].is_final || gm.types[f.ty as usize].supertype.is_some() {
            return Outcome::Discard("reserved function has an open function type");
        }
        // the body as wasmparser operators
        let mut func = wasm_encoder::Function::new_with_locals_types(f.locals.iter().map(|v| v.val()));
        for ins in &f.body {
            func.instruction(ins);
        }
        let body_bytes = {
            use wasm_encoder::Encode;
            let mut b = vec![];
            func.encode(&mut b);
            b
        };
        // skip the size prefix and the local declarations by re-reading through a FunctionBody
        let mut rd = wasmparser::BinaryReader::new(&body_bytes, 0);
        let size = rd.read_var_u32().unwrap() as usize;
        let start = rd.original_position();
        let fb = wasmparser::FunctionBody::new(wasmparser::BinaryReader::new(&body_bytes[start..start + size], 0));
        let ops: Vec<wasmparser::Operator> = match fb.get_operators_reader().and_then(|r| r.into_iter().collect::<Result<Vec<_>, _>>()) {
            Ok(o) => o,
            Err(_) => {
                c.gen_invalid();
                return Outcome::Discard("body not decodable");
            }
        };
        let named = fname.is_some() && c.t.chance(3, 4);
        let export = c.t.chance(1, 3);
        c.note(|| format!("FULL MODULE (last function is rebuilt through the builder; named={} export={})\n{}", named, export, dm::print_wat(&full)));
        // one time in four the base sits in a component and the builder finishes with
        // finish_component(comp, ModuleID(0)); the module is then taken out of the encoded component
        let via_comp = c.t.chance(1, 4);
        if via_comp {
            return self.run_via_component(c, &gm, &full, &base_bytes, &f, &params, &results, &ops, fname, named, export, last_idx);
        }
        let mut module = match lib_parse(&base_bytes, true) {
            Ok(m) => m,
            Err(o) => return o,
        };
        let pd: Vec<DataType> = params.iter().map(|v| dt(*v)).collect();
        let rd2: Vec<DataType> = results.iter().map(|v| dt(*v)).collect();
        let locals: Vec<VT> = f.locals.clone();
        let n_ops = ops.len();
        let fname2 = fname.clone();
        let r = run_lib(|| {
            let mut b = FunctionBuilder::new(&pd, &rd2);
            let mut bad_local: Option<(usize, u32)> = None;
            for (i, l) in locals.iter().enumerate() {
                let id = b.add_local(dt(*l));
                if *id as usize != pd.len() + i && bad_local.is_none() {
                    bad_local = Some((pd.len() + i, *id));
                }
            }
            for (i, o) in ops.iter().enumerate() {
                if i + 1 == n_ops {
                    break; // finish_module appends the final end
                }
                b.inject(o.clone());
            }
            if named {
                b.set_name(fname2.clone().unwrap());
            }
            (b.finish_module(&mut module), bad_local)
        });
        let (fid, bad_local) = match r {
            Ok(x) => x,
            Err(p) => return panic_fail("builder", &p),
        };
        if let Some((want, got)) = bad_local {
            return fail("builder-add_local-index", format!("FunctionBuilder::add_local returned {} where params+declared locals = {}", got, want));
        }
        if *fid != last_idx {
            return fail("returned-id", format!("finish_module returned FunctionID {} but the function is expected at {}", *fid, last_idx));
        }
        if export {
            module.exports.add_export_func("built".into(), *fid, None);
        }
        let out = match lib_encode(&mut module) {
            Ok(b) => b,
            Err(o) => return o,
        };
        if let Err(e) = dm::validate(&out) {
            c.note(|| format!("OUTPUT\n{}", dm::print_wat(&out)));
            return fail(format!("invalid-output:{}", mask(e.split(" (at offset").next().unwrap_or(&e), 50)), e);
        }
        let mut want = match dm::decode(&full) {
            Ok(d) => d,
            Err(e) => return fail("harness:decode", e),
        };
        if !named {
            want.names.funcs.remove(&last_idx);
        }
        // local/label names of the rebuilt function are not requested through the builder
        want.names.locals.retain(|(fi, _), _| *fi != last_idx);
        want.names.labels.retain(|(fi, _), _| *fi != last_idx);
        if export {
            want.exports.push(("built".into(), "func".into(), last_idx));
        }
        let got = match dm::decode(&out) {
            Ok(d) => d,
            Err(e) => return fail("undecodable-output", e),
        };
        if let Some(o) = diff_fail(&flat_trivial(&want), &flat_trivial(&got), "built") {
            c.note(|| format!("OUTPUT\n{}", dm::print_wat(&out)));
            return o;
        }
        c.class(&format!("params:{}", params.len().min(3)));
        c.class(&format!("results:{}", results.len().min(3)));
        c.class(if named { "named" } else { "unnamed" });
        if !f.locals.is_empty() && f.body.len() >= 4 && (gm.funcs.len() >= 2 || export) {
            c.nontrivial(fnv(&full));
        }
        Outcome::Pass
    }
}

impl BuiltFunctions {
    #[allow(clippy::too_many_arguments)]
    fn run_via_component(
        &self,
        c: &mut Case,
        gm: &crate::gen::GModule,
        full: &[u8],
        base_bytes: &[u8],
        f: &crate::gen::GFunc,
        params: &[VT],
        results: &[VT],
        ops: &[wasmparser::Operator],
        fname: Option<String>,
        named: bool,
        export: bool,
        last_idx: u32,
    ) -> Outcome {
        let comp_bytes = super::c03::wrap_component(base_bytes, false, 1);
        let mut comp = match run_lib(|| wirm::Component::parse(&comp_bytes, true)) {
            Ok(Ok(x)) => x,
            Ok(Err(e)) => return fail("component-parse-err", format!("{:?}", e)),
            Err(p) => return panic_fail("component-parse", &p),
        };
        let pd: Vec<DataType> = params.iter().map(|v| dt(*v)).collect();
        let rd2: Vec<DataType> = results.iter().map(|v| dt(*v)).collect();
        let n_ops = ops.len();
        let r = run_lib(|| {
            let mut b = FunctionBuilder::new(&pd, &rd2);
            for l in f.locals.iter() {
                b.add_local(dt(*l));
            }
            for (i, o) in ops.iter().enumerate() {
                if i + 1 == n_ops {
                    break;
                }
                b.inject(o.clone());
            }
            if named {
                b.set_name(fname.clone().unwrap());
            }
            b.finish_component(&mut comp, ModuleID(0))
        });
        let fid = match r {
            Ok(x) => x,
            Err(p) => return panic_fail("builder:finish_component", &p),
        };
        if *fid != last_idx {
            return fail("returned-id:finish_component", format!("finish_component returned FunctionID {} but the function is expected at {}", *fid, last_idx));
        }
        if export {
            comp.modules[0].exports.add_export_func("built".into(), *fid, None);
        }
        let out_comp = match run_lib(|| comp.encode()) {
            Ok(b) => b,
            Err(p) => return panic_fail("component-encode", &p),
        };
        let items = match crate::dec::component::decode(&out_comp) {
            Ok(i) => i,
            Err(e) => return fail("undecodable-output:component", e),
        };
        let Some(out) = items.iter().find_map(|i| if let crate::dec::component::CItem::Module(b) = i { Some(b.clone()) } else { None }) else {
            return fail("module-missing-in-component", "the encoded component has no core module".to_string());
        };
        if let Err(e) = dm::validate(&out) {
            c.note(|| format!("OUTPUT\n{}", dm::print_wat(&out)));
            return fail(format!("invalid-output:{}", mask(e.split(" (at offset").next().unwrap_or(&e), 50)), e);
        }
        let mut want = match dm::decode(full) {
            Ok(d) => d,
            Err(e) => return fail("harness:decode", e),
        };
        if !named {
            want.names.funcs.remove(&last_idx);
        }
        want.names.locals.retain(|(fi, _), _| *fi != last_idx);
        want.names.labels.retain(|(fi, _), _| *fi != last_idx);
        if export {
            want.exports.push(("built".into(), "func".into(), last_idx));
        }
        let got = match dm::decode(&out) {
            Ok(d) => d,
            Err(e) => return fail("undecodable-output", e),
        };
        if let Some(o) = diff_fail(&flat_trivial(&want), &flat_trivial(&got), "built-via-component") {
            c.note(|| format!("OUTPUT\n{}", dm::print_wat(&out)));
            return o;
        }
        c.class("finished_with_finish_component");
        if !f.locals.is_empty() && f.body.len() >= 4 && (gm.funcs.len() >= 2 || export) {
            c.nontrivial(fnv(full) ^ 0xC0);
        }
        Outcome::Pass
    }
}

// ------------------------------------------------------------------------------------ C13
pub struct AddedTypes;

fn pick_storage(c: &mut Case, n_types: u32, gc_types: &[u32]) -> Storage {
    match c.t.below(11) {
        // any abstract heap type, either nullability (field and parameter types need no value)
        8..=10 => {
            let k = c.t.below(12) as u8;
            let nullable = c.t.bool();
            Storage::Val(VT::Abs(k, nullable))
        }
        0 => Storage::I8,
        1 => Storage::I16,
        2 => Storage::Val(VT::I64),
        3 => Storage::Val(VT::F32),
        4 => Storage::Val(VT::Any),
        5 if !gc_types.is_empty() => Storage::Val(VT::RefNull(*c.t.pick(gc_types))),
        6 => Storage::Val(VT::V128),
        _ => {
            let _ = n_types;
            Storage::Val(VT::I32)
        }
    }
}
pub fn storage_dt(s: &Storage) -> DataType {
    match s {
        Storage::I8 => DataType::I8,
        Storage::I16 => DataType::I16,
        Storage::Val(v) => dt(*v),
    }
}

impl Driver for AddedTypes {
    fn id(&self) -> &'static str {
        "C13"
    }
    fn rule(&self) -> &'static str {
        "tape -> valid G-static base (GC profile in half of the cases: explicit rec groups, duplicate identical function types, sub/final) -> sequence of 1-8 type additions through add_func_type, add_func_type_with_params, add_array_type(_with_params), add_struct_type(_with_params) (with and without supertype, finality, sharing), including exact repeats of earlier requests and near-twins (one attribute of an earlier request or of a type of the base changed: a field's mutability, finality, sharing, supertype, one parameter) -> encode -> decode: (a) the type at each returned index is structurally the requested one, (b) an exact repeat returns the same index as the first request, (c) the first N decoded types and the input's rec-group structure are unchanged. Non-trivial: >=1 new type and >=1 repeat. Distinct = hash(base, requests)."
    }
    fn tape_len(&self) -> usize {
        3072
    }
    fn cases(&self, tier: Tier) -> u64 {
        match tier {
            Tier::Quick => 40_000,
            Tier::Thorough => 2_000_000,
        }
    }
    fn assumptions(&self) -> Vec<&'static str> {
        vec!["structural equality = equality of wasmparser's Debug rendering of the sub type (composite type, supertype, finality, sharedness)"]
    }
    fn run(&self, c: &mut Case) -> Outcome {
        let Some((gm, bytes)) = gen_base(c, false) else { return Outcome::Discard("generator produced an invalid module") };
        let din = match dm::decode(&bytes) {
            Ok(d) => d,
            Err(e) => return fail("harness:decode", e),
        };
        let mut module = match lib_parse(&bytes, true) {
            Ok(m) => m,
            Err(o) => return o,
        };
        let gc_types: Vec<u32> = gm.types.iter().enumerate().filter(|(_, t)| !matches!(t.comp, GComposite::Func { .. })).map(|(i, _)| i as u32).collect();
        let n0 = gm.types.len() as u32;
        let n_req = c.t.range(1, 8);
        // (request as GType + shared flag, returned id)
        let mut reqs: Vec<(GType, bool, u32, String)> = vec![];
        let mut log = vec![];
        let mut repeats = 0;
        let mut fresh = 0;
        let mut twins = 0u64;
        for _ in 0..n_req {
            let repeat = !reqs.is_empty() && c.t.chance(1, 3);
            // near-twin of an earlier request or of a type of the base: exactly one attribute
            // differs (a field's mutability, finality, sharing, the supertype, one parameter),
            // so the de-duplication key must tell them apart
            let twin = !repeat && (!reqs.is_empty() || !gm.types.is_empty()) && c.t.chance(1, 3);
            let (ty, shared, how) = if repeat {
                let r = c.t.pick(&reqs).clone();
                (r.0, r.1, r.3)
            } else if twin {
                let (mut ty, mut shared) = if !reqs.is_empty() && c.t.bool() {
                    let r = c.t.pick(&reqs).clone();
                    (r.0, r.1)
                } else {
                    (c.t.pick(&gm.types).clone(), false)
                };
                let mut flipped = false;
                match (c.t.below(4), &mut ty.comp) {
                    (0, GComposite::Struct { fields }) if !fields.is_empty() => {
                        let k = c.t.below(fields.len());
                        fields[k].1 = !fields[k].1;
                        flipped = true;
                    }
                    (0, GComposite::Array { mutable, .. }) => {
                        *mutable = !*mutable;
                        flipped = true;
                    }
                    (0, GComposite::Func { params, .. }) => {
                        if params.is_empty() {
                            params.push(VT::I32);
                        } else {
                            let k = c.t.below(params.len());
                            params[k] = if params[k] == VT::I32 { VT::I64 } else { VT::I32 };
                        }
                        flipped = true;
                    }
                    (1, _) => {
                        ty.is_final = !ty.is_final;
                        flipped = true;
                    }
                    (2, _) => {
                        shared = !shared;
                        flipped = true;
                    }
                    _ => {}
                }
                if !flipped {
                    if ty.supertype.is_some() {
                        ty.supertype = None;
                    } else {
                        ty.is_final = !ty.is_final;
                    }
                }
                twins += 1;
                (ty, shared, "with_params".to_string())
            } else {
                let with_params = c.t.bool();
                let shared = with_params && c.t.chance(1, 5);
                let is_final = if with_params { c.t.bool() } else { true };
                let kind = c.t.below(3);
                let comp = match kind {
                    0 => {
                        let vals = [VT::I32, VT::I64, VT::F32, VT::F64, VT::Func, VT::Extern, VT::V128, VT::Abs(c.t.below(12) as u8, true), VT::Abs(c.t.below(12) as u8, false)];
                        let np = c.t.below(4);
                        let nr = c.t.below(3);
                        GComposite::Func { params: (0..np).map(|_| *c.t.pick(&vals)).collect(), results: (0..nr).map(|_| *c.t.pick(&vals)).collect() }
                    }
                    1 => GComposite::Array { elem: pick_storage(c, n0, &gc_types), mutable: c.t.bool() },
                    _ => {
                        let nf = c.t.below(4);
                        GComposite::Struct { fields: (0..nf).map(|_| (pick_storage(c, n0, &gc_types), c.t.bool())).collect() }
                    }
                };
                let supertype = if with_params && !gc_types.is_empty() && c.t.chance(1, 4) { Some(*c.t.pick(&gc_types)) } else { None };
                (GType { comp, supertype, is_final }, shared, if with_params { "with_params".to_string() } else { "plain".to_string() })
            };
            let with_params = how == "with_params";
            let sup = ty.supertype.map(TypeID);
            let r = run_lib(|| match &ty.comp {
                GComposite::Func { params, results } => {
                    let p: Vec<DataType> = params.iter().map(|v| dt(*v)).collect();
                    let r: Vec<DataType> = results.iter().map(|v| dt(*v)).collect();
                    if with_params {
                        module.types.add_func_type_with_params(&p, &r, sup, ty.is_final, shared, None)
                    } else {
                        module.types.add_func_type(&p, &r, None)
                    }
                }
                GComposite::Array { elem, mutable } => {
                    if with_params {
                        module.types.add_array_type_with_params(storage_dt(elem), *mutable, sup, ty.is_final, shared, None)
                    } else {
                        module.types.add_array_type(storage_dt(elem), *mutable, None)
                    }
                }
                GComposite::Struct { fields } => {
                    let f: Vec<DataType> = fields.iter().map(|(s, _)| storage_dt(s)).collect();
                    let m: Vec<bool> = fields.iter().map(|(_, m)| *m).collect();
                    if with_params {
                        module.types.add_struct_type_with_params(f, m, sup, ty.is_final, shared, None)
                    } else {
                        module.types.add_struct_type(f, m, None)
                    }
                }
            });
            let id = match r {
                Ok(i) => *i,
                Err(p) => return panic_fail("add_type", &p),
            };
            log.push(format!("{} {:?} shared={} -> TypeID {}", how, ty, shared, id));
            if let Some(prev) = reqs.iter().find(|(t, s, _, _)| *t == ty && *s == shared) {
                repeats += 1;
                if prev.2 != id {
                    c.note(|| format!("BASE\n{}\nREQUESTS\n{}", dm::print_wat(&bytes), log.join("\n")));
                    return fail("repeat-returns-different-index", format!("identical request returned TypeID {} first and {} later", prev.2, id));
                }
            } else if id >= n0 {
                fresh += 1;
            }
            reqs.push((ty, shared, id, how));
        }
        c.note(|| format!("BASE\n{}\nREQUESTS\n{}", dm::print_wat(&bytes), log.join("\n")));
        let out = match lib_encode(&mut module) {
            Ok(b) => b,
            Err(o) => return o,
        };
        let dout = match dm::decode(&out) {
            Ok(d) => d,
            Err(e) => return fail(format!("undecodable-output:{}", mask(&e, 40)), e),
        };
        // (c) existing types untouched
        for (i, t) in din.types.iter().enumerate() {
            if dout.types.get(i) != Some(t) {
                return fail("existing-type-changed", format!("type {} was {:?}, output has {:?}", i, t, dout.types.get(i)));
            }
        }
        if dout.groups.len() < din.groups.len() || dout.groups[..din.groups.len()] != din.groups[..] {
            return fail("rec-groups-changed", format!("input groups {:?}, output groups {:?}", din.groups, dout.groups));
        }
        // (a) exactness
        for (ty, shared, id, _) in &reqs {
            let mut want = type_debug_shared(ty, *shared);
            let got = dout.types.get(*id as usize).cloned().unwrap_or_else(|| "<no such type>".into());
            // the decoder prints the index a type was read at; it is not part of the type
            want = normalise(&want);
            if normalise(&got) != want {
                return fail(
                    format!("added-type-differs:{}", match ty.comp { GComposite::Func { .. } => "func", GComposite::Array { .. } => "array", GComposite::Struct { .. } => "struct" }),
                    format!("requested {} but type {} of the output is {}", want, id, got),
                );
            }
        }
        c.class_n("requests", reqs.len() as u64);
        c.class_n("repeats", repeats);
        c.class_n("fresh", fresh);
        c.class_n("near_twins", twins);
        if fresh >= 1 && repeats >= 1 {
            c.nontrivial(fnv(&bytes) ^ fnv(log.join("|").as_bytes()));
        }
        Outcome::Pass
    }
}

fn normalise(s: &str) -> String {
    s.to_string()
}

fn type_debug_shared(t: &GType, shared: bool) -> String {
    if !shared {
        return type_debug(t);
    }
    let mut sub = t.sub();
    sub.composite_type.shared = true;
    let mut m = wasm_encoder::Module::new();
    let mut s = wasm_encoder::TypeSection::new();
    s.ty().subtype(&sub);
    m.section(&s);
    dm::decode(&m.finish()).ok().and_then(|d| d.types.first().cloned()).unwrap_or_default()
}

// ------------------------------------------------------------------------------------ C14
pub struct AddedLocals;

impl Driver for AddedLocals {
    fn id(&self) -> &'static str {
        "C14"
    }
    fn rule(&self) -> &'static str {
        "tape -> valid G-static base with >=1 local function -> 1-10 local additions of random value types on random local functions through FunctionModifier::add_local / add_locals, ModuleIterator::add_local (at the iterator's current function), and ComponentIterator::add_local (base wrapped in a component) -> each returned index must equal #params + #previously declared locals; encode -> validate -> the decoded function declares old locals ++ requested types in order and nothing else changed. Non-trivial: >=2 additions with a type change between them on a function that already had locals. (FunctionBuilder::add_local is exercised by C12.)"
    }
    fn tape_len(&self) -> usize {
        3072
    }
    fn cases(&self, tier: Tier) -> u64 {
        match tier {
            Tier::Quick => 40_000,
            Tier::Thorough => 2_000_000,
        }
    }
    fn run(&self, c: &mut Case) -> Outcome {
        let Some((gm, bytes)) = gen_base_n(c, false, true) else { return Outcome::Discard("generator produced an invalid module") };
        if gm.funcs.is_empty() {
            return Outcome::Discard("no local function");
        }
        let n_fimp = gm.n_func_imports();
        let via_component = c.t.chance(1, 4);
        let mut want = match dm::decode(&bytes) {
            Ok(d) => d,
            Err(e) => return fail("harness:decode", e),
        };
        let pool: Vec<VT> = {
            let mut v = vec![VT::I32, VT::I64, VT::F32, VT::F64];
            if gm.features_used.contains(&"simd") {
                v.push(VT::V128);
            }
            if gm.features_used.contains(&"reftypes") {
                v.push(VT::Func);
                v.push(VT::Extern);
            }
            // nullable abstract reference types (a local must be defaultable)
            if gm.features_used.contains(&"gc") {
                for k in 2..10 {
                    v.push(VT::Abs(k, true));
                }
                if gm.features_used.contains(&"exn") {
                    v.push(VT::Abs(10, true));
                    v.push(VT::Abs(11, true));
                }
            }
            v
        };
        let n_add = c.t.range(1, 10);
        // (local func k, type, api, position in a bulk add_locals call: 0 = first / not bulk)
        let mut plan: Vec<(usize, VT, u8, usize)> = vec![];
        while plan.len() < n_add {
            let k = c.t.below(gm.funcs.len());
            let ty = *c.t.pick(&pool);
            let api = if via_component { 3 } else { c.t.below(3) as u8 };
            plan.push((k, ty, api, 0));
            if api == 1 {
                // bulk call: 1-4 types, runs of equal adjacent types are common
                let extra = c.t.below(4);
                let mut prev = ty;
                for j in 0..extra {
                    let t = if c.t.bool() { prev } else { *c.t.pick(&pool) };
                    plan.push((k, t, 1, j + 1));
                    prev = t;
                }
            }
        }
        let nparams = |k: usize| match &gm.types[gm.funcs[k].ty as usize].comp {
            GComposite::Func { params, .. } => params.len(),
            _ => 0,
        };
        let mut counts: Vec<usize> = gm.funcs.iter().map(|f| f.locals.len()).collect();
        let mut log = vec![];
        let comp_bytes = super::c03::wrap_component(&bytes, false, 1);
        let res: Result<Result<Vec<u8>, Outcome>, crate::capture::PanicInfo> = run_lib(|| {
            use wirm::iterator::iterator_trait::Iterator as _;
            let mut bad: Option<Outcome> = None;
            if via_component {
                let mut comp = match wirm::Component::parse(&comp_bytes, true) {
                    Ok(c) => c,
                    Err(e) => return Err(fail("component-parse-err", format!("{:?}", e))),
                };
                {
                    let mut it = wirm::iterator::component_iterator::ComponentIterator::new(&mut comp, std::collections::HashMap::new());
                    for (k, ty, _, _) in &plan {
                        // walk to function k
                        it.reset();
                        loop {
                            if let (wirm::Location::Component { func_idx, .. }, _) = it.curr_loc() {
                                if *func_idx as usize == n_fimp + *k {
                                    break;
                                }
                            }
                            if it.next().is_none() {
                                break;
                            }
                        }
                        let id = it.add_local(dt(*ty));
                        let want_idx = nparams(*k) + counts[*k];
                        log.push(format!("ComponentIterator::add_local(func {}, {:?}) -> {}", n_fimp + k, ty, *id));
                        if *id as usize != want_idx && bad.is_none() {
                            bad = Some(fail("returned-local-index:component_iterator", format!("add_local returned {} but params+locals = {}", *id, want_idx)));
                        }
                        counts[*k] += 1;
                    }
                }
                if let Some(b) = bad {
                    return Err(b);
                }
                let _ = ModuleID(0);
                Ok(comp.encode())
            } else {
                let mut module = match wirm::Module::parse(&bytes, true) {
                    Ok(m) => m,
                    Err(e) => return Err(fail("parse-err", format!("{:?}", e))),
                };
                for (pi, (k, ty, api, pos)) in plan.iter().enumerate() {
                    let fid = FunctionID((n_fimp + *k) as u32);
                    let want_idx = nparams(*k) + counts[*k];
                    if *api == 1 && *pos > 0 {
                        // part of the bulk call issued at its first element
                        counts[*k] += 1;
                        continue;
                    }
                    let got: Option<u32> = match api {
                        0 => {
                            let mut fm = module.functions.get_fn_modifier(fid).expect("local function");
                            Some(*fm.add_local(dt(*ty)))
                        }
                        1 => {
                            let mut fm = module.functions.get_fn_modifier(fid).expect("local function");
                            let mut tys = vec![dt(*ty)];
                            for q in &plan[pi + 1..] {
                                if q.2 == 1 && q.3 > 0 {
                                    tys.push(dt(q.1));
                                } else {
                                    break;
                                }
                            }
                            fm.add_locals(&tys);
                            None
                        }
                        _ => {
                            let mut it = wirm::iterator::module_iterator::ModuleIterator::new(&mut module, &vec![]);
                            loop {
                                if let (wirm::Location::Module { func_idx, .. }, _) = it.curr_loc() {
                                    if func_idx == fid {
                                        break;
                                    }
                                }
                                if it.next().is_none() {
                                    break;
                                }
                            }
                            Some(*it.add_local(dt(*ty)))
                        }
                    };
                    log.push(format!("api{} add_local(func {}, {:?}) -> {:?}", api, *fid, ty, got));
                    if let Some(g) = got {
                        if g as usize != want_idx && bad.is_none() {
                            bad = Some(fail(format!("returned-local-index:api{}", api), format!("add_local returned {} but params+locals = {}", g, want_idx)));
                        }
                    }
                    counts[*k] += 1;
                }
                if let Some(b) = bad {
                    return Err(b);
                }
                Ok(module.encode())
            }
        });
        c.note(|| format!("BASE (via_component={})\n{}\nADDITIONS\n{}", via_component, dm::print_wat(&bytes), log.join("\n")));
        let out = match res {
            Err(p) => return panic_fail("add_local", &p),
            Ok(Err(o)) => return o,
            Ok(Ok(b)) => b,
        };
        let out_mod = if via_component {
            match extract_first_module(&out) {
                Some(m) => m,
                None => return fail("component-output-has-no-module", "no core module in the encoded component"),
            }
        } else {
            out
        };
        if let Err(e) = dm::validate(&out_mod) {
            return fail(format!("invalid-output:{}", mask(e.split(" (at offset").next().unwrap_or(&e), 50)), e);
        }
        for (k, ty, _, _) in &plan {
            want.funcs[n_fimp + *k].locals.push(format!("{:?}", super::edit::wasmparser_valtype(*ty)));
        }
        let got = match dm::decode(&out_mod) {
            Ok(d) => d,
            Err(e) => return fail("undecodable-output", e),
        };
        if let Some(o) = diff_fail(&flat_trivial(&want), &flat_trivial(&got), "locals") {
            c.note(|| format!("OUTPUT\n{}", dm::print_wat(&out_mod)));
            return o;
        }
        c.class(if via_component { "api:component_iterator" } else { "api:module" });
        if plan.windows(2).any(|w| w[1].3 > 0 && w[0].1 == w[1].1) {
            c.class("bulk_add_locals_with_run_of_equal_types");
            if plan.iter().enumerate().any(|(i, p)| p.3 > 0 && plan[i + 1..].iter().any(|q| q.0 == p.0 && q.3 == 0)) {
                c.class("bulk_run_then_later_addition_on_same_function");
            }
        }
        // non-trivial: two additions with a type change on one function that already had locals
        let mut nt = false;
        for k in 0..gm.funcs.len() {
            let adds: Vec<VT> = plan.iter().filter(|p| p.0 == k).map(|p| p.1).collect();
            if !gm.funcs[k].locals.is_empty() && adds.len() >= 2 && adds.windows(2).any(|w| w[0] != w[1]) {
                nt = true;
            }
        }
        if nt {
            c.nontrivial(fnv(&bytes) ^ fnv(log.join("|").as_bytes()));
        }
        Outcome::Pass
    }
}

pub fn extract_first_module(comp: &[u8]) -> Option<Vec<u8>> {
    for p in wasmparser::Parser::new(0).parse_all(comp) {
        if let Ok(wasmparser::Payload::ModuleSection { unchecked_range, .. }) = p {
            return comp.get(unchecked_range.start..unchecked_range.end).map(|s| s.to_vec());
        }
    }
    None
}

// ------------------------------------------------------------------------------------ C28
pub struct CustomSections;

impl Driver for CustomSections {
    fn id(&self) -> &'static str {
        "C28"
    }
    fn rule(&self) -> &'static str {
        "tape -> valid G-static base with 0-4 custom sections (duplicate names, empty name, producers / target_features / linking with arbitrary payloads) at random positions -> 0-6 edits from {custom_sections.add, delete, get_section_data_mut (append/overwrite/truncate), get_id lookups} applied to the library and to a list model -> encode -> the ordered (name, bytes) list of non-name custom sections decoded from the output equals the model and every other entity is unchanged; in half of the cases the same Module value is then edited further (0-2 edits) and encoded again, up to two times, and every encoding is compared. Non-trivial: >=2 custom sections and >=1 edit. Distinct = hash(base, edits)."
    }
    fn tape_len(&self) -> usize {
        3072
    }
    fn cases(&self, tier: Tier) -> u64 {
        match tier {
            Tier::Quick => 40_000,
            Tier::Thorough => 2_000_000,
        }
    }
    fn run(&self, c: &mut Case) -> Outcome {
        let Some((_gm, bytes)) = gen_base(c, false) else { return Outcome::Discard("generator produced an invalid module") };
        let mut want = match dm::decode(&bytes) {
            Ok(d) => d,
            Err(e) => return fail("harness:decode", e),
        };
        let mut module = match lib_parse(&bytes, true) {
            Ok(m) => m,
            Err(o) => return o,
        };
        let mut log = vec![];
        // names must outlive the module: leak a few small strings (bounded by the case count)
        let names: Vec<&'static str> = vec!["added0", "added1", "dup", "", "producers"];
        // phase 0: 0-6 edits, encode, compare.  Then (decided after everything else on the tape,
        // so that older tapes keep their meaning) up to two more rounds of 0-2 further edits and
        // another encode of the same Module value: every encoding must reflect the model.
        let mut phase = 0;
        let mut out: Vec<u8>;
        loop {
        let n_edits = if phase == 0 { c.t.below(7) } else { c.t.below(3) };
        for _ in 0..n_edits {
            match c.t.below(4) {
                0 => {
                    let name = *c.t.pick(&names);
                    let n = c.t.below(6);
                    let data = c.t.bytes(n);
                    let r = run_lib(|| module.custom_sections.add(CustomSection::new(name, data.clone())));
                    let id = match r {
                        Ok(i) => *i,
                        Err(p) => return panic_fail("custom_sections.add", &p),
                    };
                    log.push(format!("add({:?}, {:?}) -> {}", name, data, id));
                    if id as usize != want.customs.len() {
                        return fail("returned-custom-id", format!("add returned {} with {} sections present", id, want.customs.len()));
                    }
                    want.customs.push((name.to_string(), data));
                }
                1 => {
                    if want.customs.is_empty() {
                        continue;
                    }
                    let i = c.t.below(want.customs.len());
                    if let Err(p) = run_lib(|| module.custom_sections.delete(CustomSectionID(i as u32))) {
                        return panic_fail("custom_sections.delete", &p);
                    }
                    log.push(format!("delete({})", i));
                    want.customs.remove(i);
                }
                2 => {
                    if want.customs.is_empty() {
                        continue;
                    }
                    let i = c.t.below(want.customs.len());
                    let how = c.t.below(3);
                    let b = c.t.u8();
                    let r = run_lib(|| match module.custom_sections.get_section_data_mut(CustomSectionID(i as u32)) {
                        Some(v) => {
                            match how {
                                0 => v.push(b),
                                1 => v.clear(),
                                _ => {
                                    if let Some(x) = v.first_mut() {
                                        *x = b
                                    }
                                }
                            }
                            true
                        }
                        None => false,
                    });
                    match r {
                        Ok(true) => {}
                        Ok(false) => return fail("get_section_data_mut-none", format!("no data for valid id {}", i)),
                        Err(p) => return panic_fail("get_section_data_mut", &p),
                    }
                    log.push(format!("get_section_data_mut({}) how={} byte={}", i, how, b));
                    let v = &mut want.customs[i].1;
                    match how {
                        0 => v.push(b),
                        1 => v.clear(),
                        _ => {
                            if let Some(x) = v.first_mut() {
                                *x = b
                            }
                        }
                    }
                }
                _ => {
                    // get_id returns the first section with that name
                    let name = *c.t.pick(&names);
                    let got = module.custom_sections.get_id(name.to_string()).map(|i| *i as usize);
                    let exp = want.customs.iter().position(|(n, _)| n == name);
                    if got != exp {
                        return fail("get_id", format!("get_id({:?}) = {:?}, model {:?}", name, got, exp));
                    }
                }
            }
        }
        c.note(|| format!("BASE\n{}\nEDITS\n{}", dm::print_wat(&bytes), log.join("\n")));
        out = match lib_encode(&mut module) {
            Ok(b) => b,
            Err(o) => return o,
        };
        let got = match dm::decode(&out) {
            Ok(d) => d,
            Err(e) => return fail("undecodable-output", e),
        };
        let tag = if phase == 0 { "custom" } else { "custom-later-encode" };
        if let Some(o) = diff_fail(&flat_trivial(&want), &flat_trivial(&got), tag) {
            return o;
        }
        if let Err(e) = dm::validate(&out) {
            return fail(format!("invalid-output:{}", mask(e.split(" (at offset").next().unwrap_or(&e), 50)), e);
        }
        if phase >= 2 || c.t.below(2) == 0 {
            break;
        }
        phase += 1;
        log.push("encode".to_string());
        }
        if phase > 0 {
            c.class("encoded_again_after_edits");
        }
        c.class(&format!("customs:{}", want.customs.len().min(5)));
        if want.customs.len() >= 2 && !log.is_empty() {
            c.nontrivial(fnv(&bytes) ^ fnv(log.join("|").as_bytes()));
        }
        Outcome::Pass
    }
}
