//! Edit histories against an identity-based reference model (C06-C11, C29, C30 share this).
//!
//! The model is a decoded module kept in the library's *ID space* (position in the library's
//! vectors at the time of the call; added imports are appended; deleted entities keep their
//! slot).  Identities are derived from content (import names, function markers, global
//! initialisers, memory limits) by the same function on the model and on the decoded output,
//! so the model never predicts output indices or order.

use super::common::*;
use crate::capture::{mask, run_lib};
use crate::dec::module as dm;
use crate::engine::*;
use crate::gen::{gen_module, GComposite, GImportKind, GModule, Kind, MemT, Profile, VT};
use crate::tape::{fnv, Tape};
use std::cell::RefCell;
use std::collections::{BTreeMap, BTreeSet};
use wasmparser::{MemArg, Operator};
use wirm::ir::function::FunctionBuilder;
use wirm::ir::id::{FunctionID, GlobalID, ImportsID, MemoryID, TypeID};
use wirm::ir::types::{InitExpr, InitInstr, Value};
use wirm::opcode::{Inject, Instrumenter};
use wirm::{DataSegment, DataSegmentKind, DataType, Location};

#[derive(Clone, Copy, Default)]
pub struct Alphabet {
    pub func_add: bool,
    pub func_import_add: bool,
    pub func_delete: bool,
    pub l2i: bool,
    pub i2l: bool,
    pub func_export: bool,
    pub inject: bool,
    pub global_add: bool,
    pub global_import_add: bool,
    pub global_iter_add: bool,
    pub global_delete: bool,
    pub global_modinit: bool,
    pub mem_add: bool,
    pub mem_import_add: bool,
    pub mem_delete: bool,
    pub data_add: bool,
    pub mem_export: bool,
    pub naming: bool,
    /// deletions may leave live references (C09)
    pub dangling: bool,
    pub export_delete: bool,
    /// C30: random types, limits and bit patterns (NaN payloads, v128, ref.null) in additions
    pub rich: bool,
}

pub fn dt(v: VT) -> DataType {
    match v {
        VT::I32 => DataType::I32,
        VT::I64 => DataType::I64,
        VT::F32 => DataType::F32,
        VT::F64 => DataType::F64,
        VT::V128 => DataType::V128,
        VT::Func => DataType::FuncRefNull,
        VT::Extern => DataType::ExternRefNull,
        VT::Exn => DataType::ExnNull,
        VT::Any => DataType::AnyNull,
        VT::Eq => DataType::EqNull,
        VT::I31 => DataType::I31Null,
        VT::StructR => DataType::StructNull,
        VT::ArrayR => DataType::ArrayNull,
        VT::NoneR => DataType::NoneNull,
        VT::RefNull(t) => DataType::Module { ty_id: t, nullable: true },
        VT::RefNN(t) => DataType::Module { ty_id: t, nullable: false },
        VT::FuncNN => DataType::FuncRef,
        VT::Abs(k, n) => match (k % 12, n) {
            (0, true) => DataType::FuncRefNull,
            (0, false) => DataType::FuncRef,
            (1, true) => DataType::ExternRefNull,
            (1, false) => DataType::ExternRef,
            (2, true) => DataType::AnyNull,
            (2, false) => DataType::Any,
            (3, true) => DataType::NoneNull,
            (3, false) => DataType::None,
            (4, true) => DataType::NoExternNull,
            (4, false) => DataType::NoExtern,
            (5, true) => DataType::NoFuncNull,
            (5, false) => DataType::NoFunc,
            (6, true) => DataType::EqNull,
            (6, false) => DataType::Eq,
            (7, true) => DataType::StructNull,
            (7, false) => DataType::Struct,
            (8, true) => DataType::ArrayNull,
            (8, false) => DataType::Array,
            (9, true) => DataType::I31Null,
            (9, false) => DataType::I31,
            (10, true) => DataType::ExnNull,
            (10, false) => DataType::Exn,
            (_, true) => DataType::NoExnNull,
            (_, false) => DataType::NoExn,
        },
    }
}

/// default value producing ops for a defaultable value type
pub fn const_ops(v: VT, k: i64) -> Vec<Operator<'static>> {
    match v {
        VT::I32 => vec![Operator::I32Const { value: k as i32 }],
        VT::I64 => vec![Operator::I64Const { value: k }],
        VT::F32 => vec![Operator::F32Const { value: wasmparser::Ieee32::from(k as f32) }],
        VT::F64 => vec![Operator::F64Const { value: wasmparser::Ieee64::from(k as f64) }],
        VT::V128 => vec![Operator::I32Const { value: k as i32 }, Operator::I32x4Splat],
        other => {
            let hty = match wasmparser_valtype(other) {
                wasmparser::ValType::Ref(r) => r.heap_type(),
                _ => unreachable!(),
            };
            vec![Operator::RefNull { hty }]
        }
    }
}

/// The harness's own mapping of a generator value type to wasmparser's (independent of the
/// library's `From<&DataType>` conversions: this is what decoded output is compared with).
pub fn wasmparser_valtype(v: VT) -> wasmparser::ValType {
    use wasmparser::{AbstractHeapType as A, HeapType, RefType, ValType as W};
    let abs = |ty: A, nullable: bool| W::Ref(RefType::new(nullable, HeapType::Abstract { shared: false, ty }).expect("abstract reference type"));
    let conc = |t: u32, nullable: bool| W::Ref(RefType::new(nullable, HeapType::Concrete(wasmparser::UnpackedIndex::Module(t))).expect("concrete reference type"));
    const ABS: [A; 12] = [A::Func, A::Extern, A::Any, A::None, A::NoExtern, A::NoFunc, A::Eq, A::Struct, A::Array, A::I31, A::Exn, A::NoExn];
    match v {
        VT::I32 => W::I32,
        VT::I64 => W::I64,
        VT::F32 => W::F32,
        VT::F64 => W::F64,
        VT::V128 => W::V128,
        VT::Func => abs(A::Func, true),
        VT::Extern => abs(A::Extern, true),
        VT::Exn => abs(A::Exn, true),
        VT::Any => abs(A::Any, true),
        VT::Eq => abs(A::Eq, true),
        VT::I31 => abs(A::I31, true),
        VT::StructR => abs(A::Struct, true),
        VT::ArrayR => abs(A::Array, true),
        VT::NoneR => abs(A::None, true),
        VT::RefNull(t) => conc(t, true),
        VT::RefNN(t) => conc(t, false),
        VT::FuncNN => abs(A::Func, false),
        VT::Abs(k, n) => abs(ABS[k as usize % 12], n),
    }
}

#[derive(Clone, Debug)]
pub enum Stmt {
    Call(u32),
    RefFunc(u32),
    RetCall(u32),
    GGet(u32),
    GSet(u32),
    /// (kind, memory, second memory for copy)
    Mem(u8, u32, u32),
}

pub const MEM_KINDS: u8 = 14;
pub fn mem_kind_name(k: u8) -> &'static str {
    match k {
        0 => "plain_load",
        1 => "plain_store",
        2 => "size",
        3 => "grow",
        4 => "fill",
        5 => "copy",
        6 => "atomic_load32",
        7 => "atomic_load64",
        8 => "atomic_store",
        9 => "atomic_rmw",
        10 => "atomic_cmpxchg",
        11 => "wait_notify",
        12 => "simd_load",
        _ => "simd_lane",
    }
}

#[derive(Clone, Debug)]
pub struct FSlot {
    pub params: Vec<VT>,
    pub results: Vec<VT>,
    pub ty_idx: u32,
    pub import: bool,
    pub deleted: bool,
    pub nops: usize,
    pub added: bool,
    /// local function that replaced an import (replace_import_in_module)
    pub was_import: bool,
}
#[derive(Clone, Debug)]
pub struct GSlot {
    pub ty: VT,
    pub mutable: bool,
    pub import: bool,
    pub deleted: bool,
}
#[derive(Clone, Debug)]
pub struct MSlot {
    pub is64: bool,
    pub import: bool,
    pub deleted: bool,
}
#[derive(Clone, Debug)]
pub enum ImpRef {
    F(u32),
    G(u32),
    M(u32),
    Other,
}

pub struct World {
    pub f: Vec<FSlot>,
    pub g: Vec<GSlot>,
    pub m: Vec<MSlot>,
    pub imports: Vec<ImpRef>,
    pub model: dm::Dec,
    /// before-injections per (function slot, original instruction index)
    pub inj: BTreeMap<(u32, usize), Vec<String>>,
    /// after-injections (also lowered block-entry code) per (function slot, original instruction index)
    pub inj_after: BTreeMap<(u32, usize), Vec<String>>,
    /// code that the lowering puts in front of an instruction behind all before-injections
    /// (block-exit bodies in front of the matching else / end)
    pub inj_late: BTreeMap<(u32, usize), Vec<String>>,
    pub declared: BTreeSet<u32>,
    /// functions named by `ref.func` in added or injected code
    pub needs_declared: BTreeSet<u32>,
    /// function slots whose name is not constrained by any property (converted functions)
    pub name_dontcare: BTreeSet<u32>,
    /// a function import was added, converted or deleted since parsing
    pub imports_changed: bool,
    pub counter: i64,
    pub log: Vec<String>,
    pub types: Vec<crate::gen::GType>,
    pub type_dbg: Vec<String>,
}

fn collect_idx(text: &str, field: &str, out: &RefCell<BTreeSet<u32>>) {
    // reuse the substitution scanner of the decoder through a recording closure
    let pat = format!("{}: ", field);
    let b = text.as_bytes();
    let mut i = 0;
    while let Some(p) = text[i..].find(&pat) {
        let at = i + p;
        let ok = at == 0 || !(b[at - 1].is_ascii_alphanumeric() || b[at - 1] == b'_');
        let st = at + pat.len();
        let mut en = st;
        while en < text.len() && b[en].is_ascii_digit() {
            en += 1;
        }
        if ok && en > st {
            if let Ok(n) = text[st..en].parse::<u32>() {
                out.borrow_mut().insert(n);
            }
        }
        i = en.max(at + 1);
    }
}

impl World {
    pub fn new(m: &GModule, din: &dm::Dec) -> World {
        let mut w = World {
            f: vec![],
            g: vec![],
            m: vec![],
            imports: vec![],
            model: din.clone(),
            inj: BTreeMap::new(),
            inj_after: BTreeMap::new(),
            inj_late: BTreeMap::new(),
            declared: BTreeSet::new(),
            needs_declared: BTreeSet::new(),
            name_dontcare: BTreeSet::new(),
            imports_changed: false,
            counter: 0,
            log: vec![],
            types: m.types.clone(),
            type_dbg: din.types.clone(),
        };
        let sig = |ty: u32| match &m.types[ty as usize].comp {
            GComposite::Func { params, results } => (params.clone(), results.clone()),
            _ => (vec![], vec![]),
        };
        for im in &m.imports {
            match &im.kind {
                GImportKind::Func(t) => {
                    let (p, r) = sig(*t);
                    w.imports.push(ImpRef::F(w.f.len() as u32));
                    w.f.push(FSlot { params: p, results: r, ty_idx: *t, import: true, deleted: false, nops: 0, added: false, was_import: false });
                }
                GImportKind::Global(v, mu) => {
                    w.imports.push(ImpRef::G(w.g.len() as u32));
                    w.g.push(GSlot { ty: *v, mutable: *mu, import: true, deleted: false });
                }
                GImportKind::Memory(mt) => {
                    w.imports.push(ImpRef::M(w.m.len() as u32));
                    w.m.push(MSlot { is64: mt.is64, import: true, deleted: false });
                }
                _ => w.imports.push(ImpRef::Other),
            }
        }
        for (k, f) in m.funcs.iter().enumerate() {
            let (p, r) = sig(f.ty);
            let nops = din.funcs[w.f.len().min(din.funcs.len() - 1)].ops.len();
            let _ = k;
            w.f.push(FSlot { params: p, results: r, ty_idx: f.ty, import: false, deleted: false, nops, added: false, was_import: false });
        }
        for g in &m.globals {
            w.g.push(GSlot { ty: g.ty, mutable: g.mutable, import: false, deleted: false });
        }
        for mt in &m.mems {
            w.m.push(MSlot { is64: mt.is64, import: false, deleted: false });
        }
        // functions that may be named by ref.func in code: exported, in element segments, in global initialisers
        let (rf, _, _) = w.refs_outside_code();
        w.declared = rf;
        w
    }

    /// functions that `ref.func` in code may name right now
    pub fn declared_now(&self) -> BTreeSet<u32> {
        self.refs_outside_code().0
    }
    /// would deleting global `g` / export at `pos` leave a `ref.func` used by added code undeclared?
    pub fn undeclares(&self, del_global: Option<u32>, del_export: Option<usize>) -> bool {
        if self.needs_declared.is_empty() {
            return false;
        }
        let mut probe = World { f: vec![], g: vec![], m: vec![], imports: vec![], model: self.model.clone(), inj: BTreeMap::new(), inj_after: BTreeMap::new(), inj_late: BTreeMap::new(), declared: BTreeSet::new(), needs_declared: BTreeSet::new(), name_dontcare: BTreeSet::new(), imports_changed: false, counter: 0, log: vec![], types: vec![], type_dbg: vec![] };
        if let Some(g) = del_global {
            probe.model.deleted_g.insert(g);
        }
        if let Some(p) = del_export {
            probe.model.exports.remove(p);
        }
        let d = probe.declared_now();
        self.needs_declared.iter().any(|f| !d.contains(f))
    }

    pub fn fresh(&mut self) -> i64 {
        self.counter += 1;
        self.counter
    }

    /// references from everything except function bodies (these make a function "declared")
    fn refs_outside_code(&self) -> (BTreeSet<u32>, BTreeSet<u32>, BTreeSet<u32>) {
        let f = RefCell::new(BTreeSet::new());
        let g = RefCell::new(BTreeSet::new());
        let m = RefCell::new(BTreeSet::new());
        let d = &self.model;
        for (i, gl) in d.globals.iter().enumerate() {
            if d.deleted_g.contains(&(i as u32)) {
                continue;
            }
            for op in &gl.init {
                collect_idx(op, "function_index", &f);
                collect_idx(op, "global_index", &g);
            }
        }
        for (_, _, init) in &d.tables {
            for op in init {
                collect_idx(op, "function_index", &f);
                collect_idx(op, "global_index", &g);
            }
        }
        for (_, kind, idx) in &d.exports {
            match kind.as_str() {
                "func" => {
                    f.borrow_mut().insert(*idx);
                }
                "global" => {
                    g.borrow_mut().insert(*idx);
                }
                "memory" => {
                    m.borrow_mut().insert(*idx);
                }
                _ => {}
            }
        }
        for el in &d.elems {
            for op in &el.offset {
                collect_idx(op, "global_index", &g);
            }
            match &el.items {
                dm::DItems::Funcs(v) => f.borrow_mut().extend(v.iter().copied()),
                dm::DItems::Exprs(_, v) => {
                    for ops in v {
                        for op in ops {
                            collect_idx(op, "function_index", &f);
                            collect_idx(op, "global_index", &g);
                        }
                    }
                }
            }
        }
        for x in &d.datas {
            if let Some(mi) = x.mem {
                m.borrow_mut().insert(mi);
            }
            for op in &x.offset {
                collect_idx(op, "global_index", &g);
            }
        }
        (f.into_inner(), g.into_inner(), m.into_inner())
    }

    /// every referenced slot (code of live functions, injections, and everything else)
    pub fn refs(&self) -> (BTreeSet<u32>, BTreeSet<u32>, BTreeSet<u32>) {
        let (f0, g0, m0) = self.refs_outside_code();
        let f = RefCell::new(f0);
        let g = RefCell::new(g0);
        let m = RefCell::new(m0);
        let scan = |op: &String| {
            if op.contains("function_index") {
                collect_idx(op, "function_index", &f);
            }
            if op.contains("global_index") {
                collect_idx(op, "global_index", &g);
            }
            if op.contains("mem") {
                for fld in ["memory", "mem", "dst_mem", "src_mem"] {
                    collect_idx(op, fld, &m);
                }
            }
        };
        for (i, fu) in self.model.funcs.iter().enumerate() {
            if self.model.deleted_f.contains(&(i as u32)) {
                continue;
            }
            for op in &fu.ops {
                scan(op);
            }
        }
        for ((fi, _), ops) in self.inj.iter().chain(self.inj_after.iter()).chain(self.inj_late.iter()) {
            if self.model.deleted_f.contains(fi) {
                continue;
            }
            for op in ops {
                scan(op);
            }
        }
        if let Some(s) = self.model.start {
            f.borrow_mut().insert(s);
        }
        (f.into_inner(), g.into_inner(), m.into_inner())
    }

    /// the expected module: model with injections spliced in
    pub fn materialise(&self) -> dm::Dec {
        let mut d = self.model.clone();
        let mut per: BTreeMap<u32, (BTreeMap<usize, Vec<String>>, BTreeMap<usize, &Vec<String>>)> = BTreeMap::new();
        for ((fi, ii), ops) in &self.inj {
            per.entry(*fi).or_default().0.entry(*ii).or_default().extend(ops.iter().cloned());
        }
        for ((fi, ii), ops) in &self.inj_late {
            per.entry(*fi).or_default().0.entry(*ii).or_default().extend(ops.iter().cloned());
        }
        for ((fi, ii), ops) in &self.inj_after {
            per.entry(*fi).or_default().1.insert(*ii, ops);
        }
        for (fi, (before, after)) in per {
            let old = std::mem::take(&mut d.funcs[fi as usize].ops);
            let mut new = Vec::with_capacity(old.len() + 8);
            for (i, op) in old.into_iter().enumerate() {
                if let Some(ops) = before.get(&i) {
                    new.extend(ops.iter().cloned());
                }
                new.push(op);
                if let Some(ops) = after.get(&i) {
                    new.extend(ops.iter().cloned());
                }
            }
            d.funcs[fi as usize].ops = new;
        }
        if let Some(s) = d.start {
            // accepted alternative (DESIGN 5.0 / C09): start section dropped with the deleted function
            if d.deleted_f.contains(&s) {
                d.start = None;
            }
        }
        d
    }

    pub fn live_f(&self) -> Vec<u32> {
        (0..self.f.len() as u32).filter(|i| !self.f[*i as usize].deleted).collect()
    }
    pub fn live_g(&self) -> Vec<u32> {
        (0..self.g.len() as u32).filter(|i| !self.g[*i as usize].deleted).collect()
    }
    pub fn live_m(&self) -> Vec<u32> {
        (0..self.m.len() as u32).filter(|i| !self.m[*i as usize].deleted).collect()
    }

    /// index of a func type structurally equal to (params, results), final, no supertype
    pub fn find_func_type(&self, params: &[VT], results: &[VT]) -> Option<u32> {
        let want = crate::gen::GType::func(params.to_vec(), results.to_vec());
        self.types.iter().position(|t| *t == want).map(|i| i as u32)
    }

    /// model of `types.add_func_type`: existing identical type or a new one appended
    pub fn add_func_type(&mut self, params: &[VT], results: &[VT]) -> u32 {
        if let Some(i) = self.find_func_type(params, results) {
            return i;
        }
        let t = crate::gen::GType::func(params.to_vec(), results.to_vec());
        let dbg = type_debug(&t);
        self.types.push(t);
        self.type_dbg.push(dbg.clone());
        self.model.types.push(dbg);
        (self.types.len() - 1) as u32
    }
}

/// Debug text wasmparser gives for a sub type, obtained by encoding and decoding it.
pub fn type_debug(t: &crate::gen::GType) -> String {
    let mut m = wasm_encoder::Module::new();
    let mut s = wasm_encoder::TypeSection::new();
    s.ty().subtype(&t.sub());
    m.section(&s);
    let b = m.finish();
    dm::decode(&b).ok().and_then(|d| d.types.first().cloned()).unwrap_or_default()
}

fn natural(op: &str) -> u8 {
    match op {
        "8" => 0,
        "16" => 1,
        "32" => 2,
        "64" => 3,
        _ => 4,
    }
}
fn ma(align_bits: &str, mem: u32) -> MemArg {
    let a = natural(align_bits);
    MemArg { align: a, max_align: a, offset: 0, memory: mem }
}

pub fn stmt_ops(s: &Stmt, w: &World) -> Vec<Operator<'static>> {
    let mut v = vec![];
    match s {
        Stmt::Call(f) => {
            let sl = &w.f[*f as usize];
            for (i, p) in sl.params.iter().enumerate() {
                v.extend(const_ops(*p, i as i64));
            }
            v.push(Operator::Call { function_index: *f });
            for _ in &sl.results {
                v.push(Operator::Drop);
            }
        }
        Stmt::RetCall(f) => {
            let sl = &w.f[*f as usize];
            for (i, p) in sl.params.iter().enumerate() {
                v.extend(const_ops(*p, i as i64));
            }
            v.push(Operator::ReturnCall { function_index: *f });
        }
        Stmt::RefFunc(f) => {
            v.push(Operator::RefFunc { function_index: *f });
            v.push(Operator::Drop);
        }
        // i32 / i64 globals: two times in three the shared-everything-threads atomic form of the
        // access (the statement names them); the flavour is a function of the world, not of the tape
        Stmt::GGet(g) => {
            let atomic = matches!(w.g[*g as usize].ty, VT::I32 | VT::I64) && (*g as usize + w.g.len() + w.f.len()) % 3 != 0;
            if atomic {
                v.push(Operator::GlobalAtomicGet { ordering: wasmparser::Ordering::SeqCst, global_index: *g });
            } else {
                v.push(Operator::GlobalGet { global_index: *g });
            }
            v.push(Operator::Drop);
        }
        Stmt::GSet(g) => {
            let ty = w.g[*g as usize].ty;
            v.extend(const_ops(ty, 3));
            let o = wasmparser::Ordering::SeqCst;
            let k = if matches!(ty, VT::I32 | VT::I64) { (*g as usize + w.g.len() + w.f.len()) % 9 } else { 0 };
            let gi = *g;
            match k {
                1 => v.push(Operator::GlobalAtomicSet { ordering: o, global_index: gi }),
                2..=8 => {
                    if k == 8 {
                        // cmpxchg takes (expected, replacement)
                        v.extend(const_ops(ty, 4));
                    }
                    v.push(match k {
                        2 => Operator::GlobalAtomicRmwAdd { ordering: o, global_index: gi },
                        3 => Operator::GlobalAtomicRmwSub { ordering: o, global_index: gi },
                        4 => Operator::GlobalAtomicRmwAnd { ordering: o, global_index: gi },
                        5 => Operator::GlobalAtomicRmwOr { ordering: o, global_index: gi },
                        6 => Operator::GlobalAtomicRmwXor { ordering: o, global_index: gi },
                        7 => Operator::GlobalAtomicRmwXchg { ordering: o, global_index: gi },
                        _ => Operator::GlobalAtomicRmwCmpxchg { ordering: o, global_index: gi },
                    });
                    v.push(Operator::Drop);
                }
                _ => v.push(Operator::GlobalSet { global_index: gi }),
            }
        }
        Stmt::Mem(kind, mem, mem2) => {
            let is64 = w.m[*mem as usize].is64;
            let addr = |v: &mut Vec<Operator<'static>>, is64: bool| {
                if is64 {
                    v.push(Operator::I64Const { value: 0 })
                } else {
                    v.push(Operator::I32Const { value: 0 })
                }
            };
            match kind {
                0 => {
                    addr(&mut v, is64);
                    v.push(Operator::I32Load { memarg: ma("32", *mem) });
                    v.push(Operator::Drop);
                }
                1 => {
                    addr(&mut v, is64);
                    v.push(Operator::I64Const { value: 5 });
                    v.push(Operator::I64Store16 { memarg: ma("16", *mem) });
                }
                2 => {
                    v.push(Operator::MemorySize { mem: *mem });
                    v.push(Operator::Drop);
                }
                3 => {
                    addr(&mut v, is64);
                    v.push(Operator::MemoryGrow { mem: *mem });
                    v.push(Operator::Drop);
                }
                4 => {
                    addr(&mut v, is64);
                    v.push(Operator::I32Const { value: 0 });
                    addr(&mut v, is64);
                    v.push(Operator::MemoryFill { mem: *mem });
                }
                5 => {
                    let s64 = w.m[*mem2 as usize].is64;
                    addr(&mut v, is64);
                    addr(&mut v, s64);
                    addr(&mut v, is64 && s64);
                    v.push(Operator::MemoryCopy { dst_mem: *mem, src_mem: *mem2 });
                }
                6 => {
                    addr(&mut v, is64);
                    v.push(Operator::I32AtomicLoad { memarg: ma("32", *mem) });
                    v.push(Operator::Drop);
                }
                7 => {
                    addr(&mut v, is64);
                    v.push(Operator::I64AtomicLoad { memarg: ma("64", *mem) });
                    v.push(Operator::Drop);
                }
                8 => {
                    addr(&mut v, is64);
                    v.push(Operator::I32Const { value: 1 });
                    v.push(Operator::I32AtomicStore8 { memarg: ma("8", *mem) });
                }
                9 => {
                    addr(&mut v, is64);
                    v.push(Operator::I32Const { value: 1 });
                    v.push(Operator::I32AtomicRmwAdd { memarg: ma("32", *mem) });
                    v.push(Operator::Drop);
                }
                10 => {
                    addr(&mut v, is64);
                    v.push(Operator::I64Const { value: 1 });
                    v.push(Operator::I64Const { value: 2 });
                    v.push(Operator::I64AtomicRmw16CmpxchgU { memarg: ma("16", *mem) });
                    v.push(Operator::Drop);
                }
                11 => {
                    addr(&mut v, is64);
                    v.push(Operator::I32Const { value: 1 });
                    v.push(Operator::MemoryAtomicNotify { memarg: ma("32", *mem) });
                    v.push(Operator::Drop);
                }
                12 => {
                    addr(&mut v, is64);
                    v.push(Operator::V128Load32Splat { memarg: ma("32", *mem) });
                    v.push(Operator::Drop);
                }
                _ => {
                    addr(&mut v, is64);
                    v.push(Operator::I32Const { value: 1 });
                    v.push(Operator::I32x4Splat);
                    v.push(Operator::V128Store16Lane { memarg: ma("16", *mem), lane: 3 });
                }
            }
        }
    }
    v
}

pub fn dbg_ops(ops: &[Operator]) -> Vec<String> {
    ops.iter().map(|o| format!("{:?}", o)).collect()
}

/// pick statements that reference existing entities; `tail_results` = results of the
/// enclosing function when a trailing return_call is allowed
pub fn gen_stmts(w: &World, a: &Alphabet, n: usize, c: &mut Case, tail_results: Option<&[VT]>) -> Vec<Stmt> {
    let mut v = vec![];
    let lf = w.live_f();
    let lg = w.live_g();
    let lm = w.live_m();
    let declared = w.declared_now();
    for _ in 0..n {
        let k = c.t.below(6);
        match k {
            0 | 1 if a_funcs(a) => {
                let cand: Vec<u32> = lf.iter().copied().filter(|f| w.f[*f as usize].params.iter().all(|p| p.defaultable())).collect();
                if !cand.is_empty() {
                    v.push(Stmt::Call(*c.t.pick(&cand)));
                }
            }
            2 if a_funcs(a) => {
                let cand: Vec<u32> = lf.iter().copied().filter(|f| declared.contains(f)).collect();
                if !cand.is_empty() {
                    v.push(Stmt::RefFunc(*c.t.pick(&cand)));
                }
            }
            3 if a_globals(a) => {
                if !lg.is_empty() {
                    let g = *c.t.pick(&lg);
                    if w.g[g as usize].mutable && w.g[g as usize].ty.defaultable() && c.t.bool() {
                        v.push(Stmt::GSet(g));
                    } else {
                        v.push(Stmt::GGet(g));
                    }
                }
            }
            4 | 5 if a_mems(a) => {
                if !lm.is_empty() {
                    let m = *c.t.pick(&lm);
                    let m2 = *c.t.pick(&lm);
                    let mut kind = c.t.below(MEM_KINDS as usize) as u8;
                    for (hz, kinds) in [("atomic_rmw_mem_reindex", &[9u8, 10][..]), ("atomic_load64_mem_reindex", &[7u8][..])] {
                        if kinds.contains(&kind) && c.avoid(hz) {
                            c.steered(hz);
                            kind = 0;
                        }
                    }
                    v.push(Stmt::Mem(kind, m, m2));
                }
            }
            _ => {}
        }
    }
    if let Some(res) = tail_results {
        if a_funcs(a) && c.t.chance(1, 4) {
            let cand: Vec<u32> =
                lf.iter().copied().filter(|f| w.f[*f as usize].results == res && w.f[*f as usize].params.iter().all(|p| p.defaultable())).collect();
            if !cand.is_empty() {
                v.push(Stmt::RetCall(*c.t.pick(&cand)));
            }
        }
    }
    v
}
fn a_funcs(a: &Alphabet) -> bool {
    a.func_add || a.func_import_add || a.func_delete || a.l2i || a.i2l || a.inject || a.func_export
}
fn a_globals(a: &Alphabet) -> bool {
    a.global_add || a.global_import_add || a.global_delete || a.global_iter_add || a.global_modinit
}
fn a_mems(a: &Alphabet) -> bool {
    a.mem_add || a.mem_import_add || a.mem_delete || a.data_add || a.mem_export
}

pub fn op_family(op: &str) -> String {
    let n = dm::op_name(op);
    if n.contains("Cmpxchg") {
        "AtomicCmpxchg".into()
    } else if n.contains("AtomicRmw") {
        "AtomicRmw".into()
    } else if n.starts_with("V128Load") || n.starts_with("V128Store") {
        if n.contains("Lane") {
            "SimdLane".into()
        } else {
            "SimdMem".into()
        }
    } else {
        n.to_string()
    }
}

/// signature of one difference between expected (model) and actual (output)
pub fn diff_sig(path: &str, expected: &str, actual: &str) -> String {
    let pc = dm::path_class(path);
    let side = if expected == "<absent>" {
        "extra"
    } else if actual == "<absent>" {
        "missing"
    } else {
        "differs"
    };
    let tok = if pc.contains(".op[") || pc.contains(".init[") || pc.contains(".offset[") || pc.contains(".expr[") {
        op_family(if expected == "<absent>" { actual } else { expected })
    } else if pc.starts_with("export[") {
        let src = if expected == "<absent>" { actual } else { expected };
        src.split_whitespace().nth(1).unwrap_or("?").to_string()
    } else {
        String::new()
    };
    format!("diff:{}:{}:{}", pc, tok, side)
}

pub struct EditDriver {
    pub pid: &'static str,
    pub rule_text: &'static str,
    pub alphabet: Alphabet,
    pub max_ops: usize,
    pub quick: u64,
    pub thorough: u64,
    pub compare_names: bool,
    pub only_names: bool,
    pub nontrivial_rule: fn(&Applied, &World, &dm::Dec, &dm::Dec) -> bool,
}

pub struct Applied {
    pub shifted_f: bool,
    pub shifted_g: bool,
    pub shifted_m: bool,
    pub kinds: Vec<&'static str>,
    pub deletions: usize,
    pub conv_order: Vec<u32>,
    pub mixed_conv_import: bool,
    /// trigger classes (hypothesised root causes) that apply to this history: a failing case
    /// that is inside such a class is reported under the class, not under its symptom
    pub trigger: Vec<&'static str>,
    pub nan_consts: usize,
    pub nonint_consts: usize,
}

impl EditDriver {
    fn profile(&self, t: &mut Tape) -> Profile {
        let mut p = Profile::mvp();
        p.tail = t.chance(1, 2);
        p.reftypes = t.chance(1, 2);
        p.bulk = t.chance(1, 3);
        p.multivalue = t.chance(1, 4);
        if a_mems(&self.alphabet) {
            p.multimem = t.chance(3, 4);
            p.threads = t.chance(1, 2);
            p.simd = t.chance(1, 2);
            p.mem64 = t.chance(1, 4);
        }
        p
    }
}

fn lib_reject(stage: &str, p: &crate::capture::PanicInfo) -> Outcome {
    fail(format!("{}:{}", stage, p.signature()), format!("{} panicked at {}:{}: {}", stage, p.file, p.line, p.msg))
}

/// A failure of a history that lies inside a trigger class is attributed to the class.
fn by_class(ap: &Applied, o: Outcome) -> Outcome {
    let Some(cl) = ap.trigger.first() else { return o };
    let wrap = |f: Fail| Fail { sig: format!("class:{}", cl), detail: format!("[{}] {}", f.sig, f.detail) };
    match o {
        Outcome::Fail(f) => Outcome::Fail(wrap(f)),
        Outcome::FailMany(v) => Outcome::Fail(wrap(v.into_iter().next().unwrap())),
        other => other,
    }
}

impl Driver for EditDriver {
    fn id(&self) -> &'static str {
        self.pid
    }
    fn rule(&self) -> &'static str {
        self.rule_text
    }
    fn tape_len(&self) -> usize {
        3072
    }
    fn cases(&self, tier: Tier) -> u64 {
        match tier {
            Tier::Quick => self.quick,
            Tier::Thorough => self.thorough,
        }
    }
    fn assumptions(&self) -> Vec<&'static str> {
        vec![
            "identities: imports by (module, field), local functions by a leading `i64.const uid; drop`, local globals by (type, initialiser), memories by limits; the generator keeps them unique (ambiguous bases are discarded and counted)",
            "the model mirrors only the documented ID contract (ID = position at the time of the call, added imports appended) and never predicts output indices or order",
            "wasmparser validator/decoder as in C01/C02",
        ]
    }
    fn run(&self, c: &mut Case) -> Outcome {
        let mut ap = Applied::new();
        let o = self.run_inner(c, &mut ap, None);
        by_class(&ap, o)
    }
}

/// Alternative final step of a history (C04 / C05): receives the edited, not yet encoded
/// module; its outcome replaces the model comparison.
pub type Finisher<'x> = &'x mut dyn FnMut(&mut Case, &mut wirm::Module, &Applied) -> Outcome;

impl Applied {
    pub fn new() -> Applied {
        Applied { shifted_f: false, shifted_g: false, shifted_m: false, kinds: vec![], deletions: 0, conv_order: vec![], mixed_conv_import: false, trigger: vec![], nan_consts: 0, nonint_consts: 0 }
    }
}

impl EditDriver {
    /// Generate base + history from the tape, apply it, and hand the module to `fin`.
    pub fn scenario(&self, c: &mut Case, ap: &mut Applied, fin: Finisher) -> Outcome {
        self.run_inner(c, ap, Some(fin))
    }

    fn run_inner(&self, c: &mut Case, ap: &mut Applied, fin: Option<Finisher>) -> Outcome {
        let a = self.alphabet;
        let profile = self.profile(&mut c.t);
        let mut cfg = steer_cfg(c, Kind::Edit, profile);
        cfg.max_funcs = 4;
        let gm = gen_module(&mut c.t, &cfg);
        let bytes = gm.encode();
        if let Err(e) = dm::validate(&bytes) {
            c.gen_invalid();
            c.note(|| format!("GENERATOR BUG: {}\n{}", e, dm::print_wat(&bytes)));
            return Outcome::Discard("generator produced an invalid module");
        }
        let din = match dm::decode(&bytes) {
            Ok(d) => d,
            Err(_) => {
                c.gen_invalid();
                return Outcome::Discard("undecodable base");
            }
        };
        if dm::Ids::edit(&din).ambiguous.is_some() {
            return Outcome::Discard("base identities not unique");
        }
        let mut module = match lib_parse(&bytes, true) {
            Ok(m) => m,
            Err(o) => return o,
        };
        let mut w = World::new(&gm, &din);
        let n_ops = c.t.range(1, self.max_ops);
        let steer_locals = self.compare_names && c.avoid("local_names_under_function_shift") && !w.model.names.locals.is_empty();
        let steer_globals = self.compare_names && c.avoid("global_names_under_global_shift") && !w.model.names.globals.is_empty();
        for _ in 0..n_ops {
            // with the stale-name-map findings listed, the main domain keeps histories that do
            // not shift an index space whose names are stored positionally
            let before = (ap.shifted_f, ap.shifted_g);
            let _ = before;
            match self.one_op_steered(c, &mut module, &mut w, ap, steer_locals, steer_globals) {
                Ok(()) => {}
                Err(o) => {
                    c.note(|| format!("BASE\n{}\nHISTORY\n{}", dm::print_wat(&bytes), w.log.join("\n")));
                    return o;
                }
            }
        }
        c.note(|| format!("BASE\n{}\nHISTORY\n{}", dm::print_wat(&bytes), w.log.join("\n")));
        for k in &ap.kinds {
            c.class(&format!("op:{}", k));
        }

        if let Some(fin) = fin {
            return fin(c, &mut module, ap);
        }

        // trigger classes of the stored (never re-indexed) name maps
        if self.compare_names {
            let del_f = !w.model.deleted_f.is_empty();
            let del_g = !w.model.deleted_g.is_empty();
            if (ap.shifted_f || del_f) && !din.names.locals.is_empty() {
                ap.trigger.push("local_names_under_function_shift");
            }
            if (ap.shifted_g || del_g) && !din.names.globals.is_empty() {
                ap.trigger.push("global_names_under_global_shift");
            }
        }
        // expectation
        let expected = w.materialise();
        let eids = dm::Ids::edit(&expected);
        if let Some(amb) = &eids.ambiguous {
            c.note(|| format!("model identities ambiguous: {}", amb));
            return Outcome::Discard("model identities not unique");
        }
        let opts = dm::FlatOpts { by_identity: true, include_names: self.compare_names, include_customs: true };
        let fa = dm::flatten(&expected, &eids, &opts);
        let dangling: Vec<(&String, &String)> = fa.iter().filter(|(_, v)| v.contains("DELETED(")).collect();
        let is_dangling = !dangling.is_empty();
        if is_dangling {
            c.class("dangling_reference");
        }

        let out = match run_lib(|| module.encode()) {
            Ok(b) => b,
            Err(p) => {
                if is_dangling {
                    // loud failure: the contract of C09
                    c.class(&format!("loud:{}", mask(&p.msg, 40)));
                    c.nontrivial(fnv(w.log.join("|").as_bytes()) ^ fnv(&bytes));
                    return Outcome::Pass;
                }
                return lib_reject("encode", &p);
            }
        };
        if is_dangling {
            let (k, v) = dangling[0];
            // bytes were returned although a live reference to a deleted entity exists
            let dout = dm::decode(&out);
            let detail = format!("encode returned bytes although {} = {} refers to a deleted entity", k, v);
            let kind = dm::path_class(k);
            let _ = dout;
            return fail(format!("dangling-not-loud:{}:{}", kind, op_family(v)), detail);
        }
        if let Err(e) = dm::validate(&out) {
            let e2 = match e.find(" (at offset") {
                Some(i) => e[..i].to_string(),
                None => e.clone(),
            };
            c.note(|| format!("OUTPUT\n{}", dm::print_wat(&out)));
            return fail(format!("invalid-output:{}", mask(&e2, 50)), format!("output does not validate: {}", e));
        }
        let dout = match dm::decode(&out) {
            Ok(d) => d,
            Err(e) => return fail("undecodable-output", e),
        };
        let oids = dm::Ids::edit(&dout);
        if let Some(amb) = &oids.ambiguous {
            c.note(|| format!("OUTPUT\n{}", dm::print_wat(&out)));
            return fail("output-identity-ambiguous", amb.clone());
        }
        let fb = dm::flatten(&dout, &oids, &opts);
        let mut diffs = dm::all_diffs(&fa, &fb, 40);
        if self.only_names {
            diffs.retain(|(k, _, _)| k.starts_with("name.func[") || k.starts_with("name.local[") || k.starts_with("name.global["));
        }
        // names of converted functions are not constrained
        let dontcare: Vec<String> = w.name_dontcare.iter().map(|f| format!("name.func[{}]", eids.fid(*f))).collect();
        diffs.retain(|(k, _, _)| !dontcare.contains(k));
        if !diffs.is_empty() {
            c.note(|| format!("OUTPUT\n{}", dm::print_wat(&out)));
            let fails: Vec<Fail> = diffs
                .iter()
                .map(|(k, e, a)| Fail { sig: diff_sig(k, e, a), detail: format!("{}: expected {:?}, output has {:?}", k, e, a) })
                .collect();
            return Outcome::FailMany(fails);
        }
        // non-triviality
        if (self.nontrivial_rule)(ap, &w, &din, &dout) {
            c.nontrivial(fnv(w.log.join("|").as_bytes()) ^ fnv(&bytes));
        }
        Outcome::Pass
    }
}

fn note_ref_funcs(w: &mut World, stmts: &[Stmt]) {
    for s in stmts {
        if let Stmt::RefFunc(f) = s {
            w.needs_declared.insert(*f);
        }
    }
}

fn init_expr_of(ty: VT, k: i64, get: Option<u32>, reff: Option<u32>) -> (InitExpr, Vec<String>) {
    if let Some(g) = get {
        return (InitExpr::new(vec![InitInstr::Global(GlobalID(g))]), vec![format!("{:?}", Operator::GlobalGet { global_index: g })]);
    }
    if let Some(f) = reff {
        return (InitExpr::new(vec![InitInstr::RefFunc(FunctionID(f))]), vec![format!("{:?}", Operator::RefFunc { function_index: f })]);
    }
    let (v, op) = match ty {
        VT::I32 => (Value::I32(k as i32), Operator::I32Const { value: k as i32 }),
        VT::I64 => (Value::I64(k), Operator::I64Const { value: k }),
        VT::F32 => (Value::F32(k as f32), Operator::F32Const { value: wasmparser::Ieee32::from(k as f32) }),
        _ => (Value::F64(k as f64), Operator::F64Const { value: wasmparser::Ieee64::from(k as f64) }),
    };
    (InitExpr::new(vec![InitInstr::Value(v)]), vec![format!("{:?}", op)])
}

pub fn global_ty_dbg(ty: VT, mutable: bool) -> String {
    format!("{:?}", wasmparser::GlobalType { content_type: wasmparser_valtype(ty), mutable, shared: false })
}
pub fn mem_ty(min: u64, max: Option<u64>, is64: bool, shared: bool) -> wasmparser::MemoryType {
    wasmparser::MemoryType { memory64: is64, shared, initial: min, maximum: max, page_size_log2: None }
}

impl EditDriver {
    fn enabled(&self) -> Vec<&'static str> {
        let a = &self.alphabet;
        let mut v = vec![];
        macro_rules! e {
            ($f:ident, $n:expr) => {
                if a.$f {
                    v.push($n);
                }
            };
        }
        e!(func_add, "add_local_func");
        e!(func_import_add, "add_import_func");
        e!(func_delete, "delete_func");
        e!(l2i, "local_to_import");
        e!(i2l, "import_to_local");
        e!(func_export, "add_export_func");
        e!(inject, "inject");
        e!(global_add, "add_global");
        e!(global_import_add, "add_imported_global");
        e!(global_iter_add, "iter_add_global");
        e!(global_delete, "delete_global");
        e!(global_modinit, "mod_global_init");
        e!(mem_add, "add_local_memory");
        e!(mem_import_add, "add_import_memory");
        e!(mem_delete, "delete_memory");
        e!(data_add, "add_data");
        e!(mem_export, "add_export_mem");
        e!(naming, "set_fn_name");
        e!(export_delete, "delete_export");
        if let Ok(only) = std::env::var("VERIF_OPS") {
            // experimentation aid: restrict the alphabet
            let allow: Vec<&str> = only.split(',').collect();
            v.retain(|x| allow.contains(x));
        }
        v
    }

    fn one_op_steered<'a>(&self, c: &mut Case, module: &mut wirm::Module<'a>, w: &mut World, ap: &mut Applied, steer_locals: bool, steer_globals: bool) -> Result<(), Outcome> {
        self.one_op(c, module, w, ap, steer_locals, steer_globals)
    }

    /// apply one generated operation to the library and to the model
    fn one_op<'a>(&self, c: &mut Case, module: &mut wirm::Module<'a>, w: &mut World, ap: &mut Applied, steer_locals: bool, steer_globals: bool) -> Result<(), Outcome> {
        let a = self.alphabet;
        let ops = self.enabled();
        let mut op = *c.t.pick(&ops);
        // ops that shift the function / global index space (conservatively)
        let shifts_f = matches!(op, "add_import_func" | "delete_func" | "local_to_import" | "import_to_local");
        let shifts_g = matches!(op, "add_imported_global" | "delete_global");
        if steer_locals && shifts_f {
            c.steered("local_names_under_function_shift");
            op = "add_export_func";
        }
        if steer_globals && shifts_g {
            c.steered("global_names_under_global_shift");
            op = "add_global";
        }
        let k = w.fresh();
        match op {
            "add_import_func" => {
                let tys: Vec<u32> = w.types.iter().enumerate().filter(|(_, t)| matches!(t.comp, GComposite::Func { .. })).map(|(i, _)| i as u32).collect();
                let ty = *c.t.pick(&tys);
                let (params, results) = match &w.types[ty as usize].comp {
                    GComposite::Func { params, results } => (params.clone(), results.clone()),
                    _ => unreachable!(),
                };
                let (mo, na) = ("ai".to_string(), format!("a{}", k));
                let had_locals = w.f.iter().any(|f| !f.import && !f.deleted);
                let r = run_lib(|| module.add_import_func(mo.clone(), na.clone(), TypeID(ty))).map_err(|p| lib_reject("add_import_func", &p))?;
                let id = *r.0;
                w.log.push(format!("add_import_func({}.{}, type {}) -> FunctionID {} ImportsID {}", mo, na, ty, id, *r.1));
                if id as usize != w.f.len() {
                    return Err(fail("returned-id-not-fresh:func-import", format!("add_import_func returned FunctionID {} but {} functions already have IDs 0..{}", id, w.f.len(), w.f.len())));
                }
                if *r.1 as usize != w.imports.len() {
                    return Err(fail("returned-id-not-fresh:imports-id", format!("add_import_func returned ImportsID {} with {} imports present", *r.1, w.imports.len())));
                }
                w.imports.push(ImpRef::F(id));
                w.imports_changed = true;
                w.f.push(FSlot { params, results, ty_idx: ty, import: true, deleted: false, nops: 0, added: true, was_import: false });
                w.model.funcs.push(dm::DFunc { import: Some((mo, na)), ty_idx: ty, ..Default::default() });
                if had_locals {
                    ap.shifted_f = true;
                }
                if !ap.conv_order.is_empty() {
                    ap.mixed_conv_import = true;
                }
                ap.kinds.push("add_import_func");
            }
            "add_local_func" => {
                let ftys: Vec<u32> = w.types.iter().enumerate().filter(|(_, t)| matches!(&t.comp, GComposite::Func { params, results } if params.iter().chain(results.iter()).all(|v| v.defaultable() && !matches!(v, VT::RefNull(_))))).map(|(i, _)| i as u32).collect();
                let (params, results) = if !ftys.is_empty() && c.t.chance(3, 4) {
                    match &w.types[*c.t.pick(&ftys) as usize].comp {
                        GComposite::Func { params, results } => (params.clone(), results.clone()),
                        _ => unreachable!(),
                    }
                } else {
                    (vec![VT::I64, VT::F32], vec![VT::I32])
                };
                let uid = 0x7EED_0000 + k;
                let ns = c.t.below(4);
                let stmts = gen_stmts(w, &a, ns, c, Some(&results));
                let mut body: Vec<Operator<'static>> = vec![Operator::I64Const { value: uid }, Operator::Drop];
                let mut tail = false;
                note_ref_funcs(w, &stmts);
                for s in &stmts {
                    if matches!(s, Stmt::RetCall(_)) {
                        tail = true;
                    }
                    body.extend(stmt_ops(s, w));
                }
                if !tail {
                    for (i, r) in results.iter().enumerate() {
                        body.extend(const_ops(*r, 40 + i as i64));
                    }
                }
                let pd: Vec<DataType> = params.iter().map(|v| dt(*v)).collect();
                let rd: Vec<DataType> = results.iter().map(|v| dt(*v)).collect();
                let body2 = body.clone();
                let bname = if a.naming && c.t.bool() { Some(format!("built{}", k)) } else { None };
                let bname2 = bname.clone();
                let r = run_lib(|| {
                    let mut b = FunctionBuilder::new(&pd, &rd);
                    for o in body2 {
                        b.inject(o);
                    }
                    if let Some(n) = bname2 {
                        b.set_name(n);
                    }
                    b.finish_module(module)
                })
                .map_err(|p| lib_reject("finish_module", &p))?;
                let id = *r;
                if let Some(n) = &bname {
                    w.model.names.funcs.insert(id, n.clone());
                }
                w.log.push(format!("FunctionBuilder({:?}->{:?}) body {:?} finish_module -> FunctionID {}", params, results, dbg_ops(&body), id));
                if id as usize != w.f.len() {
                    return Err(fail("returned-id-not-fresh:func-local", format!("finish_module returned FunctionID {} but IDs 0..{} are taken", id, w.f.len())));
                }
                let ty = w.add_func_type(&params, &results);
                let mut ops = dbg_ops(&body);
                ops.push("End".into());
                let nops = ops.len();
                w.f.push(FSlot { params, results, ty_idx: ty, import: false, deleted: false, nops, added: true, was_import: false });
                w.model.funcs.push(dm::DFunc { import: None, ty_idx: ty, locals: vec![], ops });
                ap.kinds.push("add_local_func");
            }
            "delete_func" => {
                let (rf, _, _) = w.refs();
                let live = w.live_f();
                let cand: Vec<u32> = if a.dangling && c.t.bool() { live.clone() } else { live.iter().copied().filter(|f| !rf.contains(f)).collect() };
                if cand.is_empty() {
                    return Ok(());
                }
                let id = *c.t.pick(&cand);
                run_lib(|| module.delete_func(FunctionID(id))).map_err(|p| lib_reject("delete_func", &p))?;
                w.log.push(format!("delete_func({}){}", id, if rf.contains(&id) { "  [still referenced]" } else { "" }));
                w.f[id as usize].deleted = true;
                if w.f[id as usize].import {
                    w.imports_changed = true;
                }
                w.model.deleted_f.insert(id);
                // later slots shift
                if live.iter().any(|x| *x > id) {
                    ap.shifted_f = true;
                }
                ap.deletions += 1;
                ap.kinds.push("delete_func");
            }
            "local_to_import" => {
                let mut cand: Vec<u32> = w.live_f().into_iter().filter(|f| !w.f[*f as usize].import).collect();
                if c.avoid("l2i_of_replaced_import") {
                    let before = cand.len();
                    cand.retain(|f| !w.f[*f as usize].was_import);
                    if cand.len() != before {
                        c.steered("l2i_of_replaced_import");
                    }
                }
                if cand.is_empty() {
                    return Ok(());
                }
                if c.avoid("l2i_not_ascending") {
                    // keep to ascending conversion order without import additions in between
                    let last = ap.conv_order.last().copied();
                    let before = cand.len();
                    cand.retain(|f| last.map(|l| *f > l).unwrap_or(true));
                    if cand.len() != before {
                        c.steered("l2i_not_ascending");
                    }
                    if cand.is_empty() || ap.kinds.contains(&"add_import_func") {
                        return Ok(());
                    }
                }
                let id = *c.t.pick(&cand);
                if w.f[id as usize].was_import {
                    ap.trigger.push("l2i_of_replaced_import");
                }
                let ty = w.f[id as usize].ty_idx;
                let (mo, na) = ("cv".to_string(), format!("c{}", k));
                let ok = run_lib(|| module.convert_local_fn_to_import(FunctionID(id), mo.clone(), na.clone(), TypeID(ty))).map_err(|p| lib_reject("convert_local_fn_to_import", &p))?;
                w.log.push(format!("convert_local_fn_to_import({}, {}.{}, type {}) -> {}", id, mo, na, ty, ok));
                if !ok {
                    return Err(fail("l2i-refused", "convert_local_fn_to_import returned false for a local function"));
                }
                w.imports.push(ImpRef::F(id));
                w.imports_changed = true;
                w.f[id as usize].import = true;
                let d = &mut w.model.funcs[id as usize];
                d.import = Some((mo, na));
                d.ops.clear();
                d.locals.clear();
                w.inj.retain(|(fi, _), _| *fi != id);
                w.inj_after.retain(|(fi, _), _| *fi != id);
                w.inj_late.retain(|(fi, _), _| *fi != id);
                // names of the locals of a removed body are not expected to survive
                w.model.names.locals.retain(|(f, _), _| *f != id);
                w.model.names.labels.retain(|(f, _), _| *f != id);
                w.model.names.funcs.remove(&id);
                w.name_dontcare.insert(id);
                ap.shifted_f = true;
                if ap.kinds.contains(&"add_import_func") {
                    ap.mixed_conv_import = true;
                }
                ap.conv_order.push(id);
                ap.kinds.push("local_to_import");
            }
            "import_to_local" => {
                let cand: Vec<(u32, u32)> = w
                    .imports
                    .iter()
                    .enumerate()
                    .filter_map(|(ii, r)| match r {
                        ImpRef::F(f) if w.f[*f as usize].import && !w.f[*f as usize].deleted && !w.f[*f as usize].added => Some((ii as u32, *f)),
                        _ => None,
                    })
                    .collect();
                let mut cand: Vec<(u32, u32)> = cand.into_iter().filter(|(_, f)| w.f[*f as usize].params.iter().chain(w.f[*f as usize].results.iter()).all(|v| v.defaultable())).collect();
                if c.avoid("i2l_imports_id_is_not_function_id") {
                    let before = cand.len();
                    cand.retain(|(ii, f)| ii == f);
                    if cand.len() != before {
                        c.steered("i2l_imports_id_is_not_function_id");
                    }
                }
                if cand.is_empty() {
                    return Ok(());
                }
                let (imp_id, fid) = *c.t.pick(&cand);
                let (params, results) = (w.f[fid as usize].params.clone(), w.f[fid as usize].results.clone());
                let uid = 0x7EED_0000 + k;
                let ns = c.t.below(3);
                let stmts = gen_stmts(w, &a, ns, c, None);
                let mut body: Vec<Operator<'static>> = vec![Operator::I64Const { value: uid }, Operator::Drop];
                note_ref_funcs(w, &stmts);
                for s in &stmts {
                    body.extend(stmt_ops(s, w));
                }
                for (i, r) in results.iter().enumerate() {
                    body.extend(const_ops(*r, 60 + i as i64));
                }
                let pd: Vec<DataType> = params.iter().map(|v| dt(*v)).collect();
                let rd: Vec<DataType> = results.iter().map(|v| dt(*v)).collect();
                let body2 = body.clone();
                w.log.push(format!("FunctionBuilder({:?}->{:?}) body {:?} replace_import_in_module(ImportsID {})  [function slot {}]", params, results, dbg_ops(&body), imp_id, fid));
                run_lib(|| {
                    let mut b = FunctionBuilder::new(&pd, &rd);
                    for o in body2 {
                        b.inject(o);
                    }
                    b.replace_import_in_module(module, ImportsID(imp_id))
                })
                .map_err(|p| lib_reject("replace_import_in_module", &p))?;
                let mut ops = dbg_ops(&body);
                ops.push("End".into());
                w.f[fid as usize].import = false;
                w.f[fid as usize].nops = ops.len();
                w.f[fid as usize].added = true;
                w.f[fid as usize].was_import = true;
                let d = &mut w.model.funcs[fid as usize];
                // the replaced import keeps its name as the function's name (documented in the builder)
                let imp_name = d.import.as_ref().map(|x| x.1.clone());
                d.import = None;
                d.ops = ops;
                let _ = imp_name;
                w.model.names.funcs.remove(&fid);
                w.name_dontcare.insert(fid);
                ap.shifted_f = true;
                ap.kinds.push("import_to_local");
            }
            "add_export_func" => {
                let live = w.live_f();
                if live.is_empty() {
                    return Ok(());
                }
                let id = *c.t.pick(&live);
                let name = format!("ex{}", k);
                module.exports.add_export_func(name.clone(), id, None);
                w.log.push(format!("exports.add_export_func({:?}, {})", name, id));
                w.model.exports.push((name, "func".into(), id));
                w.declared.insert(id);
                ap.kinds.push("add_export_func");
            }
            "inject" => {
                let cand: Vec<u32> = w.live_f().into_iter().filter(|f| !w.f[*f as usize].import).collect();
                if cand.is_empty() {
                    return Ok(());
                }
                let fid = *c.t.pick(&cand);
                let nops = w.f[fid as usize].nops;
                if nops == 0 {
                    return Ok(());
                }
                // never in front of the identity marker
                let lo = if nops > 2 { 2 } else { nops - 1 };
                let at = c.t.range(lo, nops - 1);
                let ns = c.t.range(1, 2);
                let stmts = gen_stmts(w, &a, ns, c, None);
                let mut ops: Vec<Operator<'static>> = vec![];
                note_ref_funcs(w, &stmts);
                for s in &stmts {
                    ops.extend(stmt_ops(s, w));
                }
                if ops.is_empty() {
                    return Ok(());
                }
                // where and how: before / after an instruction, at function entry, or as a
                // block-entry probe on a construct (the special modes are lowered at encode; the
                // IDs in their code must be re-indexed like everything else)
                let opener_sites: Vec<usize> = (lo..nops).filter(|i| matches!(w.model.funcs[fid as usize].ops.get(*i).map(|o| dm::op_name(o)), Some("Block" | "Loop" | "If")) && !w.inj_after.contains_key(&(fid, *i))).collect();
                let mut how = *c.t.pick(&["before", "before", "after", "func_entry", "block_entry", "block_exit"]);
                if how == "block_exit" && opener_sites.is_empty() {
                    how = "before";
                }
                if how == "block_entry" && opener_sites.is_empty() {
                    how = "before";
                }
                if how == "after" && (at + 1 >= nops || matches!(w.model.funcs[fid as usize].ops.get(at).map(|o| dm::op_name(o)), Some("Block" | "Loop" | "If"))) {
                    how = "before";
                }
                let at = match how {
                    "block_entry" | "block_exit" => *c.t.pick(&opener_sites),
                    "func_entry" => 0,
                    _ => at,
                };
                let via_iter = how != "func_entry" && c.t.bool();
                let ops2 = ops.clone();
                w.log.push(format!("inject {} func {} instr {} via {}: {:?}", how, fid, at, if via_iter { "ModuleIterator" } else { "FunctionModifier" }, dbg_ops(&ops)));
                run_lib(|| {
                    use wirm::iterator::iterator_trait::{IteratingInstrumenter, Iterator};
                    if via_iter {
                        let mut it = wirm::iterator::module_iterator::ModuleIterator::new(module, &vec![]);
                        loop {
                            if let (Location::Module { func_idx, instr_idx }, _) = it.curr_loc() {
                                if *func_idx == fid && instr_idx == at {
                                    match how {
                                        "after" => it.after(),
                                        "block_entry" => it.block_entry(),
                                        "block_exit" => it.block_exit(),
                                        _ => it.before(),
                                    };
                                    for o in ops2 {
                                        it.inject(o);
                                    }
                                    break;
                                }
                            }
                            if it.next().is_none() {
                                panic!("harness: location not reached by the iterator");
                            }
                        }
                    } else {
                        let loc = Location::Module { func_idx: FunctionID(fid), instr_idx: at };
                        let mut fm = module.functions.get_fn_modifier(FunctionID(fid)).expect("local function");
                        match how {
                            "after" => {
                                fm.after_at(loc);
                            }
                            "block_entry" => {
                                fm.block_entry_at(loc);
                            }
                            "block_exit" => {
                                fm.block_exit_at(loc);
                            }
                            "func_entry" => {
                                fm.func_entry();
                            }
                            _ => {
                                fm.before_at(loc);
                            }
                        };
                        for o in ops2 {
                            fm.inject(o);
                        }
                        fm.finish_instr();
                    }
                })
                .map_err(|p| lib_reject("inject", &p))?;
                match how {
                    "block_exit" => {
                        // lowered in front of the matching end (an if: in front of its else, if any)
                        let st = super::instr::structure(&w.model.funcs[fid as usize].ops);
                        let site = st.else_of.get(&at).copied().unwrap_or_else(|| st.end_of[&at]);
                        w.inj_late.entry((fid, site)).or_default().extend(dbg_ops(&ops));
                    }
                    "after" | "block_entry" => w.inj_after.entry((fid, at)).or_default().extend(dbg_ops(&ops)),
                    _ => w.inj.entry((fid, at)).or_default().extend(dbg_ops(&ops)),
                }
                c.class(&format!("inject:{}", how));
                ap.kinds.push("inject");
            }
            "add_global" | "mod_global_init" if a.rich && (op == "add_global" || c.t.bool()) => {
                // C30: bit-exact constants of every value type
                use wasm_encoder::Instruction as WI;
                let target: Option<u32> = if op == "mod_global_init" {
                    let cand: Vec<u32> = w.live_g().into_iter().filter(|g| !w.g[*g as usize].import && matches!(w.g[*g as usize].ty, VT::I32 | VT::I64 | VT::F32 | VT::F64 | VT::V128)).collect();
                    if cand.is_empty() {
                        return Ok(());
                    }
                    Some(*c.t.pick(&cand))
                } else {
                    None
                };
                let ty = match target {
                    Some(g) => w.g[g as usize].ty,
                    None => {
                        let ty = *c.t.pick(&[VT::I32, VT::I64, VT::F32, VT::F64, VT::V128, VT::Func, VT::Extern]);
                        // half of the externref picks become some other nullable abstract
                        // reference type (ref.null initialiser); by position, not a tape read
                        if ty == VT::Extern && (k as usize + w.g.len()) % 2 == 0 {
                            VT::Abs(((k as usize * 5 + w.g.len() * 3) % 12) as u8, true)
                        } else {
                            ty
                        }
                    }
                };
                let mutable = c.t.bool();
                let (instr, wi): (InitInstr, WI<'static>) = match ty {
                    VT::I32 => {
                        let v = c.t.i32v();
                        (InitInstr::Value(Value::I32(v)), WI::I32Const(v))
                    }
                    VT::I64 => {
                        let v = c.t.i64v();
                        (InitInstr::Value(Value::I64(v)), WI::I64Const(v))
                    }
                    VT::F32 => {
                        let b = c.t.f32bits();
                        if f32::from_bits(b).is_nan() {
                            ap.nan_consts += 1;
                        }
                        (InitInstr::Value(Value::F32(f32::from_bits(b))), WI::F32Const(crate::gen::ieee32(b)))
                    }
                    VT::F64 => {
                        let b = c.t.f64bits();
                        if f64::from_bits(b).is_nan() {
                            ap.nan_consts += 1;
                        }
                        (InitInstr::Value(Value::F64(f64::from_bits(b))), WI::F64Const(crate::gen::ieee64(b)))
                    }
                    VT::V128 => {
                        let v = c.t.u128();
                        (InitInstr::Value(Value::V128(v)), WI::V128Const(v as i128))
                    }
                    other => {
                        let rt = match wasmparser_valtype(other) {
                            wasmparser::ValType::Ref(r) => r,
                            _ => unreachable!(),
                        };
                        (InitInstr::RefNull(rt), WI::RefNull(other.heap().unwrap()))
                    }
                };
                ap.nonint_consts += !matches!(ty, VT::I32 | VT::I64) as usize;
                let init_dbg = dm::dbg_of_we(&[wi]);
                let tydbg = global_ty_dbg(ty, if target.is_some() { w.g[target.unwrap() as usize].mutable } else { mutable });
                if w.model.globals.iter().enumerate().any(|(i, g)| !w.model.deleted_g.contains(&(i as u32)) && g.import.is_none() && g.ty == tydbg && g.init == init_dbg) {
                    return Ok(()); // identities must stay unique
                }
                let ie = InitExpr::new(vec![instr]);
                match target {
                    Some(g) => {
                        run_lib(|| module.mod_global_init_expr(GlobalID(g), ie.clone())).map_err(|p| lib_reject("mod_global_init_expr", &p))?;
                        w.log.push(format!("mod_global_init_expr({}, {:?})", g, init_dbg));
                        w.model.globals[g as usize].init = init_dbg;
                        ap.kinds.push("mod_global_init");
                    }
                    None => {
                        let id = *run_lib(|| module.add_global(ie.clone(), dt(ty), mutable, false)).map_err(|p| lib_reject("add_global", &p))?;
                        w.log.push(format!("add_global({:?} mut={} init {:?}) -> GlobalID {}", ty, mutable, init_dbg, id));
                        if id as usize != w.g.len() {
                            return Err(fail("returned-id-not-fresh:add_global", format!("add_global returned GlobalID {} but IDs 0..{} are taken", id, w.g.len())));
                        }
                        w.g.push(GSlot { ty, mutable, import: false, deleted: false });
                        w.model.globals.push(dm::DGlobal { import: None, ty: tydbg, init: init_dbg });
                        ap.kinds.push("add_global");
                    }
                }
            }
            "add_global" | "iter_add_global" => {
                let ty = *c.t.pick(&[VT::I32, VT::I64, VT::F32, VT::F64, VT::Func]);
                let mutable = c.t.bool();
                let uniq = 9000 + k;
                let mut get = None;
                let mut reff = None;
                let mut ty = ty;
                if ty == VT::Func {
                    let live = w.live_f();
                    if live.is_empty() {
                        return Ok(());
                    }
                    reff = Some(*c.t.pick(&live));
                    // ref.func is a non-null constant: half of these globals are declared (ref func)
                    if (k as usize + w.g.len()) % 2 == 0 {
                        ty = VT::FuncNN;
                    }
                } else if c.t.chance(1, 4) {
                    let cand: Vec<u32> = w.live_g().into_iter().filter(|g| w.g[*g as usize].import && !w.g[*g as usize].mutable && w.g[*g as usize].ty == ty).collect();
                    if !cand.is_empty() {
                        get = Some(*c.t.pick(&cand));
                    }
                }
                // (type, mutability, initialiser) must stay unique among globals
                let (ie, init_dbg) = init_expr_of(ty, uniq, get, reff);
                let tydbg = global_ty_dbg(ty, mutable);
                if w.model.globals.iter().enumerate().any(|(i, g)| !w.model.deleted_g.contains(&(i as u32)) && g.import.is_none() && g.ty == tydbg && g.init == init_dbg) {
                    return Ok(());
                }
                let had_any = !w.g.is_empty();
                let _ = had_any;
                let id = if op == "add_global" {
                    *run_lib(|| module.add_global(ie.clone(), dt(ty), mutable, false)).map_err(|p| lib_reject("add_global", &p))?
                } else {
                    if !w.f.iter().any(|f| !f.import) {
                        return Ok(()); // an iterator needs a local function (C25 covers the no-function case)
                    }
                    use wirm::ir::module::module_globals::{Global, GlobalKind, LocalGlobal};
                    use wirm::iterator::iterator_trait::IteratingInstrumenter;
                    let gty = wasmparser::GlobalType { content_type: wasmparser_valtype(ty), mutable, shared: false };
                    *run_lib(|| {
                        let mut it = wirm::iterator::module_iterator::ModuleIterator::new(module, &vec![]);
                        it.add_global(Global::new(GlobalKind::Local(LocalGlobal { global_id: GlobalID(0), ty: gty, init_expr: ie.clone() }), None))
                    })
                    .map_err(|p| lib_reject("iterator.add_global", &p))?
                };
                w.log.push(format!("{}({:?} mut={} init {:?}) -> GlobalID {}", op, ty, mutable, init_dbg, id));
                if id as usize != w.g.len() {
                    return Err(fail(format!("returned-id-not-fresh:{}", op), format!("{} returned GlobalID {} but IDs 0..{} are taken", op, id, w.g.len())));
                }
                if let Some(f) = reff {
                    w.declared.insert(f);
                }
                w.g.push(GSlot { ty, mutable, import: false, deleted: false });
                w.model.globals.push(dm::DGlobal { import: None, ty: tydbg, init: init_dbg });
                ap.kinds.push(if op == "add_global" { "add_global" } else { "iter_add_global" });
            }
            "add_imported_global" => {
                let mut ty = *c.t.pick(&[VT::I32, VT::I64, VT::F32, VT::F64]);
                // an imported global needs no initialiser: one time in three any abstract
                // reference type in either nullability (by position, not a tape read)
                if (k as usize + w.g.len()) % 3 == 0 {
                    ty = VT::Abs(((k as usize * 7 + w.g.len()) % 12) as u8, (k as usize / 3 + w.g.len()) % 2 == 0);
                }
                let mutable = c.t.chance(1, 3);
                let (mo, na) = ("gi".to_string(), format!("g{}", k));
                let had_locals = w.g.iter().any(|g| !g.import && !g.deleted);
                if had_locals && c.avoid("imported_global_shifts_locals") {
                    c.steered("imported_global_shifts_locals");
                    return Ok(());
                }
                let r = run_lib(|| module.add_imported_global(mo.clone(), na.clone(), dt(ty), mutable, false)).map_err(|p| lib_reject("add_imported_global", &p))?;
                let id = *r.0;
                w.log.push(format!("add_imported_global({}.{}, {:?} mut={}) -> GlobalID {} ImportsID {}", mo, na, ty, mutable, id, *r.1));
                if id as usize != w.g.len() {
                    return Err(fail("returned-id-not-fresh:global-import", format!("add_imported_global returned GlobalID {} but IDs 0..{} are taken", id, w.g.len())));
                }
                w.imports.push(ImpRef::G(id));
                w.g.push(GSlot { ty, mutable, import: true, deleted: false });
                w.model.globals.push(dm::DGlobal { import: Some((mo, na)), ty: global_ty_dbg(ty, mutable), init: vec![] });
                if had_locals {
                    ap.shifted_g = true;
                }
                ap.kinds.push("add_imported_global");
            }
            "delete_global" => {
                let (_, rg, _) = w.refs();
                let live = w.live_g();
                let cand: Vec<u32> = if a.dangling && c.t.bool() { live.clone() } else { live.iter().copied().filter(|g| !rg.contains(g)).collect() };
                if cand.is_empty() {
                    return Ok(());
                }
                let id = *c.t.pick(&cand);
                if w.undeclares(Some(id), None) {
                    return Ok(()); // would make the history itself invalid (ref.func left undeclared)
                }
                if live.iter().any(|x| *x > id) && c.avoid("global_delete_shifts") {
                    c.steered("global_delete_shifts");
                    return Ok(());
                }
                run_lib(|| module.delete_global(GlobalID(id))).map_err(|p| lib_reject("delete_global", &p))?;
                w.log.push(format!("delete_global({}){}", id, if rg.contains(&id) { "  [still referenced]" } else { "" }));
                w.g[id as usize].deleted = true;
                w.model.deleted_g.insert(id);
                if live.iter().any(|x| *x > id) {
                    ap.shifted_g = true;
                }
                ap.deletions += 1;
                ap.kinds.push("delete_global");
            }
            "mod_global_init" => {
                let cand: Vec<u32> = w.live_g().into_iter().filter(|g| !w.g[*g as usize].import && matches!(w.g[*g as usize].ty, VT::I32 | VT::I64 | VT::F32 | VT::F64)).collect();
                if cand.is_empty() {
                    return Ok(());
                }
                let id = *c.t.pick(&cand);
                let ty = w.g[id as usize].ty;
                let (ie, init_dbg) = init_expr_of(ty, 9500 + k, None, None);
                run_lib(|| module.mod_global_init_expr(GlobalID(id), ie.clone())).map_err(|p| lib_reject("mod_global_init_expr", &p))?;
                w.log.push(format!("mod_global_init_expr({}, {:?})", id, init_dbg));
                w.model.globals[id as usize].init = init_dbg;
                ap.kinds.push("mod_global_init");
            }
            "add_local_memory" | "add_import_memory" => {
                let min = 50 + k as u64;
                let is64 = a.rich && c.t.chance(1, 3);
                let shared = a.rich && c.t.chance(1, 3);
                let max = if shared || c.t.bool() { Some(min + c.t.below(if a.rich { 60000 } else { 6 }) as u64) } else { None };
                let mt = mem_ty(min, max, is64, shared);
                let had_locals = w.m.iter().any(|m| !m.import && !m.deleted);
                if op == "add_local_memory" {
                    let id = *run_lib(|| module.add_local_memory(mt)).map_err(|p| lib_reject("add_local_memory", &p))?;
                    w.log.push(format!("add_local_memory({:?}) -> MemoryID {}", mt, id));
                    if id as usize != w.m.len() {
                        return Err(fail("returned-id-not-fresh:memory-local", format!("add_local_memory returned MemoryID {} but IDs 0..{} are taken", id, w.m.len())));
                    }
                    w.m.push(MSlot { is64, import: false, deleted: false });
                    w.model.mems.push((None, format!("{:?}", mt)));
                    ap.kinds.push("add_local_memory");
                } else {
                    let (mo, na) = ("mi".to_string(), format!("m{}", k));
                    let r = run_lib(|| module.add_import_memory(mo.clone(), na.clone(), mt)).map_err(|p| lib_reject("add_import_memory", &p))?;
                    let id = *r.0;
                    w.log.push(format!("add_import_memory({}.{}, {:?}) -> MemoryID {} ImportsID {}", mo, na, mt, id, *r.1));
                    if id as usize != w.m.len() {
                        return Err(fail("returned-id-not-fresh:memory-import", format!("add_import_memory returned MemoryID {} but IDs 0..{} are taken", id, w.m.len())));
                    }
                    w.imports.push(ImpRef::M(id));
                    w.m.push(MSlot { is64, import: true, deleted: false });
                    w.model.mems.push((Some((mo, na)), format!("{:?}", mt)));
                    if had_locals {
                        ap.shifted_m = true;
                    }
                    ap.kinds.push("add_import_memory");
                }
            }
            "delete_memory" => {
                let (_, _, rm) = w.refs();
                let live = w.live_m();
                let cand: Vec<u32> = if a.dangling && c.t.bool() { live.clone() } else { live.iter().copied().filter(|m| !rm.contains(m)).collect() };
                if cand.is_empty() {
                    return Ok(());
                }
                let id = *c.t.pick(&cand);
                run_lib(|| module.delete_memory(MemoryID(id))).map_err(|p| lib_reject("delete_memory", &p))?;
                w.log.push(format!("delete_memory({}){}", id, if rm.contains(&id) { "  [still referenced]" } else { "" }));
                w.m[id as usize].deleted = true;
                w.model.deleted_m.insert(id);
                if live.iter().any(|x| *x > id) {
                    ap.shifted_m = true;
                }
                ap.deletions += 1;
                ap.kinds.push("delete_memory");
            }
            "add_data" => {
                let live = w.live_m();
                let n = c.t.below(if a.rich { 40 } else { 5 });
                let bytes = c.t.bytes(n);
                let passive = live.is_empty() || (w.model.data_count.is_some() && c.t.chance(1, 4));
                if passive && w.model.data_count.is_none() {
                    return Ok(()); // a passive segment needs the data count section when code refers to it; keep bases valid
                }
                if passive {
                    let id = *module.add_data(DataSegment { kind: DataSegmentKind::Passive, data: bytes.clone(), tag: None });
                    w.log.push(format!("add_data(passive {:?}) -> {}", bytes, id));
                    w.model.datas.push(dm::DData { mem: None, offset: vec![], bytes });
                } else {
                    let mem = *c.t.pick(&live);
                    let is64 = w.m[mem as usize].is64;
                    let off = c.t.below(32) as i64;
                    // one time in three (by position, not a tape read) the offset is a global.get of
                    // an imported immutable global of the address type, when there is one
                    let aty = if is64 { VT::I64 } else { VT::I32 };
                    let gcand: Vec<u32> = w.live_g().into_iter().filter(|g| w.g[*g as usize].import && !w.g[*g as usize].mutable && w.g[*g as usize].ty == aty).collect();
                    let get = if !gcand.is_empty() && (k as usize + n) % 3 == 0 { Some(gcand[(k as usize + n / 3) % gcand.len()]) } else { None };
                    let (ie, dbg) = init_expr_of(aty, off, get, None);
                    let id = *module.add_data(DataSegment { kind: DataSegmentKind::Active { memory_index: mem, offset_expr: ie }, data: bytes.clone(), tag: None });
                    w.log.push(format!("add_data(active mem {} offset {} {:?}) -> {}", mem, if get.is_some() { format!("{:?}", dbg) } else { off.to_string() }, bytes, id));
                    w.model.datas.push(dm::DData { mem: Some(mem), offset: dbg, bytes });
                }
                if let Some(n) = w.model.data_count.as_mut() {
                    *n += 1;
                }
                ap.kinds.push("add_data");
            }
            "add_export_mem" => {
                let live = w.live_m();
                if live.is_empty() {
                    return Ok(());
                }
                let id = *c.t.pick(&live);
                let name = format!("em{}", k);
                module.exports.add_export_mem(name.clone(), id, None);
                w.log.push(format!("exports.add_export_mem({:?}, {})", name, id));
                w.model.exports.push((name, "memory".into(), id));
                ap.kinds.push("add_export_mem");
            }
            "delete_export" => {
                // ExportsID = position in the library's export list (deleted entries keep their slot)
                if w.model.exports.is_empty() {
                    return Ok(());
                }
                let pos = c.t.below(w.model.exports.len());
                if w.undeclares(None, Some(pos)) {
                    return Ok(());
                }
                let name = w.model.exports[pos].0.clone();
                let id = match module.exports.get_export_id_by_name(name.clone()) {
                    Some(i) => i,
                    None => return Err(fail("export-lookup-failed", format!("get_export_id_by_name({:?}) returned None for a live export", name))),
                };
                run_lib(|| module.exports.delete(id)).map_err(|p| lib_reject("exports.delete", &p))?;
                w.log.push(format!("exports.delete({:?} = ExportsID {})", name, *id));
                w.model.exports.remove(pos);
                ap.deletions += 1;
                ap.kinds.push("delete_export");
            }
            "set_fn_name" => {
                let live = w.live_f();
                if live.is_empty() {
                    return Ok(());
                }
                let id = *c.t.pick(&live);
                let name = format!("named{}", k);
                if w.f[id as usize].added && c.avoid("set_fn_name_on_added") {
                    c.steered("set_fn_name_on_added");
                    return Ok(());
                }
                let imp_pos = w.imports.iter().position(|r| matches!(r, ImpRef::F(f) if *f == id));
                let mut mismatch = false;
                match (w.f[id as usize].import, imp_pos, c.t.below(3)) {
                    (true, Some(ii), 1) => {
                        w.log.push(format!("imports.set_name({:?}, ImportsID {})  [function {}]", name, ii, id));
                        run_lib(|| module.imports.set_name(name.clone(), ImportsID(ii as u32))).map_err(|p| lib_reject("imports.set_name", &p))?;
                    }
                    // known finding: the call counts function imports in import-section order,
                    // so it is only right while the target's ordinal among them equals its
                    // FunctionID (not for a converted local function, whose entry is appended
                    // behind imports with higher IDs).  Only that case is the known class;
                    // additions and deletions that leave ordinal == ID stay in the main domain.
                    (true, Some(ii), 2)
                        if !w.f[id as usize].added && {
                            let ord = w.imports[..ii].iter().filter(|r| matches!(r, ImpRef::F(_))).count() as u32;
                            mismatch = ord != id;
                            !(mismatch && c.avoid("imports_set_fn_name_after_import_change"))
                        } =>
                    {
                        if mismatch {
                            ap.trigger.push("imports_set_fn_name_after_import_change");
                        }
                        w.log.push(format!("imports.set_fn_name({:?}, FunctionID {})", name, id));
                        run_lib(|| module.imports.set_fn_name(name.clone(), FunctionID(id))).map_err(|p| lib_reject("imports.set_fn_name", &p))?;
                    }
                    _ => {
                        w.log.push(format!("set_fn_name({}, {:?})", id, name));
                        run_lib(|| module.set_fn_name(FunctionID(id), name.clone())).map_err(|p| lib_reject("set_fn_name", &p))?;
                    }
                }
                w.model.names.funcs.insert(id, name);
                ap.kinds.push("set_fn_name");
            }
            _ => {}
        }
        Ok(())
    }
}
