//! Choice tape: every random decision of every generator is read from a byte
//! string.  proptest generates and shrinks the byte string; libFuzzer mutates it.
//! An exhausted tape yields zeros (= the simplest choice everywhere), and all
//! index choices are monotone in the byte value so that shrinking bytes towards
//! zero shrinks the decoded case.

#[derive(Clone)]
pub struct Tape<'a> {
    data: &'a [u8],
    pos: usize,
}

impl<'a> Tape<'a> {
    pub fn new(data: &'a [u8]) -> Self {
        Tape { data, pos: 0 }
    }
    pub fn consumed(&self) -> usize {
        self.pos.min(self.data.len())
    }
    pub fn exhausted(&self) -> bool {
        self.pos >= self.data.len()
    }
    pub fn remaining(&self) -> usize {
        self.data.len().saturating_sub(self.pos)
    }
    #[inline]
    pub fn u8(&mut self) -> u8 {
        let v = if self.pos < self.data.len() { self.data[self.pos] } else { 0 };
        self.pos += 1;
        v
    }
    pub fn u16(&mut self) -> u16 {
        let a = self.u8() as u16;
        let b = self.u8() as u16;
        (a << 8) | b
    }
    pub fn u32(&mut self) -> u32 {
        let a = self.u16() as u32;
        let b = self.u16() as u32;
        (a << 16) | b
    }
    pub fn u64(&mut self) -> u64 {
        let a = self.u32() as u64;
        let b = self.u32() as u64;
        (a << 32) | b
    }
    pub fn u128(&mut self) -> u128 {
        let a = self.u64() as u128;
        let b = self.u64() as u128;
        (a << 64) | b
    }
    /// uniform-ish in 0..n, monotone in the tape bytes; n == 0 yields 0.
    pub fn below(&mut self, n: usize) -> usize {
        if n <= 1 {
            return 0;
        }
        if n <= 256 {
            ((self.u8() as usize) * n) >> 8
        } else if n <= 65536 {
            ((self.u16() as usize) * n) >> 16
        } else {
            (((self.u32() as u64) * (n as u64)) >> 32) as usize
        }
    }
    /// inclusive range
    pub fn range(&mut self, lo: usize, hi: usize) -> usize {
        debug_assert!(lo <= hi);
        lo + self.below(hi - lo + 1)
    }
    pub fn bool(&mut self) -> bool {
        self.u8() >= 128
    }
    /// true with probability num/den; false on an exhausted tape.
    pub fn chance(&mut self, num: usize, den: usize) -> bool {
        // high byte values mean "yes", so that zeros mean "no"
        let v = self.below(den);
        v >= den - num.min(den)
    }
    pub fn pick<'b, T>(&mut self, xs: &'b [T]) -> &'b T {
        &xs[self.below(xs.len())]
    }
    pub fn bytes(&mut self, n: usize) -> Vec<u8> {
        (0..n).map(|_| self.u8()).collect()
    }
    /// boundary-biased 32-bit value
    pub fn i32v(&mut self) -> i32 {
        match self.below(8) {
            0 => self.below(8) as i32,
            1 => -(self.below(8) as i32),
            2 => *self.pick(&[0, 1, -1, i32::MAX, i32::MIN, 255, 256, 65535, 65536, 0x7fff_ffff, -0x8000_0000i32, 42]),
            3 => 1i32.wrapping_shl(self.below(32) as u32),
            4 => (self.u8() as i32) - 128,
            5 => self.u16() as i32,
            _ => self.u32() as i32,
        }
    }
    pub fn i64v(&mut self) -> i64 {
        match self.below(8) {
            0 => self.below(8) as i64,
            1 => -(self.below(8) as i64),
            2 => *self.pick(&[0, 1, -1, i64::MAX, i64::MIN, 0xffff_ffff, 0x1_0000_0000, i32::MAX as i64, i32::MIN as i64]),
            3 => 1i64.wrapping_shl(self.below(64) as u32),
            4 => self.u16() as i64,
            5 => self.u32() as i64,
            _ => self.u64() as i64,
        }
    }
    /// f32 bit pattern, including NaN payloads, infinities, subnormals
    pub fn f32bits(&mut self) -> u32 {
        match self.below(8) {
            0 => 0,
            1 => *self.pick(&[
                0x3f80_0000, 0xbf80_0000, 0x7f80_0000, 0xff80_0000, 0x8000_0000, 0x0000_0001, 0x7f7f_ffff,
                0x4f00_0000, 0xcf00_0000, 0x5f00_0000,
            ]),
            2 => 0x7fc0_0000 | (self.u32() & 0x003f_ffff),           // quiet NaN with payload
            3 => 0x7f80_0001 | (self.u32() & 0x003f_ffff),           // signalling NaN with payload
            4 => 0xffc0_0000 | (self.u32() & 0x003f_ffff),
            5 => ((self.below(64) as f32) - 32.0).to_bits(),
            _ => self.u32(),
        }
    }
    pub fn f64bits(&mut self) -> u64 {
        match self.below(8) {
            0 => 0,
            1 => *self.pick(&[
                0x3ff0_0000_0000_0000, 0xbff0_0000_0000_0000, 0x7ff0_0000_0000_0000, 0xfff0_0000_0000_0000,
                0x8000_0000_0000_0000, 1, 0x7fef_ffff_ffff_ffff, 0x41e0_0000_0000_0000, 0xc1e0_0000_0000_0000,
                0x43e0_0000_0000_0000,
            ]),
            2 => 0x7ff8_0000_0000_0000 | (self.u64() & 0x0007_ffff_ffff_ffff),
            3 => 0x7ff0_0000_0000_0001 | (self.u64() & 0x0007_ffff_ffff_ffff),
            4 => 0xfff8_0000_0000_0000 | (self.u64() & 0x0007_ffff_ffff_ffff),
            5 => ((self.below(64) as f64) - 32.0).to_bits(),
            _ => self.u64(),
        }
    }
}

pub fn hex(bytes: &[u8]) -> String {
    let mut s = String::with_capacity(bytes.len() * 2);
    for b in bytes {
        s.push_str(&format!("{:02x}", b));
    }
    s
}

pub fn unhex(s: &str) -> Vec<u8> {
    let s = s.as_bytes();
    let mut out = Vec::with_capacity(s.len() / 2);
    let mut i = 0;
    while i + 1 < s.len() {
        let h = (s[i] as char).to_digit(16).unwrap_or(0) as u8;
        let l = (s[i + 1] as char).to_digit(16).unwrap_or(0) as u8;
        out.push((h << 4) | l);
        i += 2;
    }
    out
}

/// FNV-1a, used for fingerprints (no std RandomState anywhere in properties).
pub fn fnv(data: &[u8]) -> u64 {
    let mut h: u64 = 0xcbf29ce484222325;
    for b in data {
        h ^= *b as u64;
        h = h.wrapping_mul(0x100000001b3);
    }
    h
}
