//! Seed binaries extracted from the repository's own test inputs (`/repo/tests/**/*.wat`,
//! `*.wast`, `*.wasm`): read and converted once per process, kept if they validate.
use std::sync::OnceLock;

fn walk(dir: &std::path::Path, out: &mut Vec<std::path::PathBuf>) {
    let Ok(rd) = std::fs::read_dir(dir) else { return };
    let mut v: Vec<_> = rd.filter_map(|e| e.ok()).map(|e| e.path()).collect();
    v.sort();
    for p in v {
        if p.is_dir() {
            walk(&p, out);
        } else {
            out.push(p);
        }
    }
}

fn is_component(b: &[u8]) -> bool {
    b.len() >= 8 && b[0..4] == [0, 0x61, 0x73, 0x6d] && b[4..8] == [0x0d, 0, 1, 0]
}

fn valid(b: &[u8]) -> bool {
    let mut v = wasmparser::Validator::new_with_features(wasmparser::WasmFeatures::all());
    v.validate_all(b).is_ok()
}

fn all() -> &'static (Vec<(String, Vec<u8>)>, Vec<(String, Vec<u8>)>) {
    static C: OnceLock<(Vec<(String, Vec<u8>)>, Vec<(String, Vec<u8>)>)> = OnceLock::new();
    C.get_or_init(|| {
        let mut files = vec![];
        walk(std::path::Path::new("/repo/tests"), &mut files);
        let mut comps = vec![];
        let mut mods = vec![];
        let mut push = |name: String, b: Vec<u8>| {
            if b.len() > 200_000 || !valid(&b) {
                return;
            }
            if is_component(&b) {
                comps.push((name, b));
            } else {
                mods.push((name, b));
            }
        };
        for p in files {
            let name = p.to_string_lossy().to_string();
            match p.extension().and_then(|e| e.to_str()) {
                Some("wat") => {
                    if let Ok(b) = std::panic::catch_unwind(|| wat::parse_file(&p)) {
                        if let Ok(b) = b {
                            push(name, b);
                        }
                    }
                }
                Some("wasm") => {
                    if let Ok(b) = std::fs::read(&p) {
                        push(name, b);
                    }
                }
                Some("wast") => {
                    let Ok(text) = std::fs::read_to_string(&p) else { continue };
                    let r = std::panic::catch_unwind(|| {
                        let mut found = vec![];
                        let Ok(buf) = wast::parser::ParseBuffer::new(&text) else { return found };
                        let Ok(w) = wast::parser::parse::<wast::Wast>(&buf) else { return found };
                        for d in w.directives {
                            match d {
                                wast::WastDirective::Module(mut q) | wast::WastDirective::ModuleDefinition(mut q) => {
                                    if let Ok(b) = q.encode() {
                                        found.push(b);
                                    }
                                }
                                _ => {}
                            }
                        }
                        found
                    });
                    if let Ok(found) = r {
                        for (k, b) in found.into_iter().enumerate() {
                            push(format!("{}#{}", name, k), b);
                        }
                    }
                }
                _ => {}
            }
        }
        (comps, mods)
    })
}

/// valid components found in the repository's tests
pub fn components() -> &'static Vec<(String, Vec<u8>)> {
    &all().0
}
/// valid core modules found in the repository's tests
pub fn modules() -> &'static Vec<(String, Vec<u8>)> {
    &all().1
}
