fn main(){ vharness::hi(); let _ = wirm::Module::parse(&[], false); }
