//! vcheck: supervisor / worker / replay entry points.
//!
//!   vcheck run <ID> <quick|thorough>      supervisor: runs the check, writes evidence, prints verdict lines
//!   vcheck replay <file>                  strict single re-execution of a saved case
//!   vcheck worker ...                     (internal) generated-case worker process
//!   vcheck one ...                        (internal) one tape in a fresh process
//!
//! Exit codes: 0 held, 1 violation (with VIOLATION lines), 2 infrastructure problem.

use serde_json::{json, Value};
use std::collections::BTreeMap;
use std::process::Command;
use std::time::Instant;
use vharness::engine::*;
use vharness::tape::{hex, unhex};
use vharness::{capture, props};

fn root() -> String {
    std::env::var("VERIF_ROOT").unwrap_or_else(|_| "/verif".to_string())
}
/// known_findings.json (VERIF_FINDINGS_FILE overrides it: used by tools/regen_known.py only)
fn findings_path() -> String {
    std::env::var("VERIF_FINDINGS_FILE").unwrap_or_else(|_| format!("{}/known_findings.json", root()))
}
fn seed() -> u64 {
    std::env::var("VERIF_SEED").ok().and_then(|s| s.parse::<i64>().ok()).map(|v| v as u64).unwrap_or(1)
}
fn tier_of(s: &str) -> Tier {
    if s == "thorough" {
        Tier::Thorough
    } else {
        Tier::Quick
    }
}

fn silence_stdout() {
    // the library println!s from ComponentIterator::new; keep our own stdout clean
    unsafe {
        let devnull = libc::open(b"/dev/null\0".as_ptr() as *const libc::c_char, libc::O_WRONLY);
        if devnull >= 0 {
            libc::dup2(devnull, 1);
            // proptest reports shrink-limit notices on stderr; the supervisor prints what matters
            if std::env::var("VERIF_WORKER_STDERR").is_err() {
                libc::dup2(devnull, 2);
            }
            libc::close(devnull);
        }
    }
}

fn stats_to_json(st: &Stats) -> Value {
    json!({
        "evaluations": st.evaluations,
        "nontrivial": st.nontrivial.iter().collect::<Vec<_>>(),
        "classes": st.classes,
        "discards": st.discards,
        "excluded": st.excluded,
        "gen_invalid": st.gen_invalid,
        "samples": st.samples,
        "known": st.known.iter().map(|(k,(n,d))| (k.clone(), json!([n, d]))).collect::<BTreeMap<_,_>>(),
        "muted_repeats": st.muted_repeats,
    })
}
fn stats_from_json(v: &Value) -> Stats {
    let mut st = Stats::default();
    st.evaluations = v["evaluations"].as_u64().unwrap_or(0);
    if let Some(a) = v["nontrivial"].as_array() {
        for x in a {
            if let Some(n) = x.as_u64() {
                st.nontrivial.insert(n);
            }
        }
    }
    let map = |k: &str| -> BTreeMap<String, u64> {
        v[k].as_object()
            .map(|o| o.iter().map(|(k, v)| (k.clone(), v.as_u64().unwrap_or(0))).collect())
            .unwrap_or_default()
    };
    st.classes = map("classes");
    st.discards = map("discards");
    st.excluded = map("excluded");
    st.gen_invalid = v["gen_invalid"].as_u64().unwrap_or(0);
    if let Some(a) = v["samples"].as_array() {
        st.samples = a.iter().filter_map(|x| x.as_str().map(|s| s.to_string())).collect();
    }
    if let Some(o) = v["known"].as_object() {
        for (k, x) in o {
            st.known.insert(k.clone(), (x[0].as_u64().unwrap_or(0), x[1].as_str().unwrap_or("").to_string()));
        }
    }
    st.muted_repeats = v["muted_repeats"].as_u64().unwrap_or(0);
    st
}

fn viol_to_json(v: &Violation) -> Value {
    json!({"sig": v.sig, "detail": v.detail, "tape_hex": hex(&v.tape),
           "mode": match v.mode { Mode::Main => "main", Mode::Probe => "probe", Mode::Replay => "replay" },
           "rendered": v.rendered})
}
fn viol_from_json(v: &Value) -> Violation {
    Violation {
        sig: v["sig"].as_str().unwrap_or("").into(),
        detail: v["detail"].as_str().unwrap_or("").into(),
        tape: unhex(v["tape_hex"].as_str().unwrap_or("")),
        mode: mode_from(v["mode"].as_str().unwrap_or("replay")),
        rendered: v["rendered"].as_str().unwrap_or("").into(),
    }
}

fn worker(args: &[String]) -> i32 {
    // worker <ID> <tier> <seed> <outfile> <inflightdir>
    silence_stdout();
    capture::init();
    let id = &args[0];
    let tier = tier_of(&args[1]);
    let seed: u64 = args[2].parse().unwrap_or(1);
    let out = &args[3];
    let Some(d) = props::get(id) else { return 2 };
    let findings = Findings::load(&findings_path());
    let inflight = InFlight::new(&args[4], threads());
    let mut res = run_generated(d.as_ref(), tier, seed, &findings, Some(&inflight));
    let hz = findings.hazards_for(d.id());
    d.extra(tier, &mut res.stats, &hz, &mut res.violations, &findings);
    let v = json!({
        "stats": stats_to_json(&res.stats),
        "violations": res.violations.iter().map(viol_to_json).collect::<Vec<_>>(),
    });
    if std::fs::write(out, serde_json::to_string(&v).unwrap()).is_err() {
        return 2;
    }
    0
}

fn one(args: &[String]) -> i32 {
    // one <ID> <mode> <tapefile> <outfile>
    silence_stdout();
    capture::init();
    let Some(d) = props::get(&args[0]) else { return 2 };
    let mode = mode_from(&args[1]);
    let tape = std::fs::read(&args[2]).unwrap_or_default();
    let findings = Findings::load(&findings_path());
    let hz = findings.hazards_for(d.id());
    // same stack size as the generated-case worker threads
    let (o, rendered) = std::thread::scope(|s| {
        std::thread::Builder::new()
            .stack_size(vharness::engine::crate_stack())
            .spawn_scoped(s, || {
                let mut st = Stats::default();
                let (o, rendered, _) = run_one(d.as_ref(), &tape, &mut st, &hz, mode, Tier::Quick, true);
                (pick_failure(d.id(), &findings, o), rendered)
            })
            .expect("spawn")
            .join()
            .expect("join")
    });
    let v = match o {
        Outcome::Pass => json!({"outcome":"pass","rendered":rendered}),
        Outcome::Discard(w) => json!({"outcome":"discard","why":w,"rendered":rendered}),
        Outcome::Fail(f) => json!({"outcome":"fail","sig":f.sig,"detail":f.detail,"rendered":rendered}),
        Outcome::FailMany(_) => unreachable!(),
    };
    let _ = std::fs::write(&args[3], serde_json::to_string(&v).unwrap());
    0
}

struct OneResult {
    outcome: String,
    sig: String,
    detail: String,
    rendered: String,
}

fn scratch_dir() -> String {
    let d = format!("{}/harness/target/vscratch/{}", root(), std::process::id());
    let _ = std::fs::create_dir_all(&d);
    d
}

/// Run one tape in a fresh process so that aborts (stack overflow, abort()) are observable.
fn run_isolated(id: &str, mode: &str, tape: &[u8], tag: &str) -> OneResult {
    let dir = scratch_dir();
    let tf = format!("{}/one-{}.tape", dir, tag);
    let of = format!("{}/one-{}.json", dir, tag);
    let _ = std::fs::write(&tf, tape);
    let _ = std::fs::remove_file(&of);
    let exe = std::env::current_exe().unwrap();
    let cf = format!("{}/one-{}.crumb", dir, tag);
    let _ = std::fs::remove_file(&cf);
    let st = Command::new(exe).args(["one", id, mode, &tf, &of]).env("VERIF_CRUMB_FILE", &cf).status();
    let mut r = OneResult { outcome: "abort".into(), sig: String::new(), detail: String::new(), rendered: String::new() };
    match st {
        Ok(s) if s.success() => {
            if let Ok(txt) = std::fs::read_to_string(&of) {
                if let Ok(v) = serde_json::from_str::<Value>(&txt) {
                    r.outcome = v["outcome"].as_str().unwrap_or("abort").into();
                    r.sig = v["sig"].as_str().unwrap_or("").into();
                    r.detail = v["detail"].as_str().unwrap_or("").into();
                    r.rendered = v["rendered"].as_str().unwrap_or("").into();
                }
            }
        }
        Ok(s) => {
            use std::os::unix::process::ExitStatusExt;
            let crumb = std::fs::read_to_string(&cf).unwrap_or_default();
            r.sig = format!("abort:signal-{}@{}", s.signal().unwrap_or(0), if crumb.is_empty() { "?" } else { crumb.as_str() });
            r.detail = format!("process died: {:?}", s);
        }
        Err(e) => {
            r.outcome = "infra".into();
            r.detail = format!("{}", e);
        }
    }
    let _ = std::fs::remove_file(&tf);
    let _ = std::fs::remove_file(&of);
    let _ = std::fs::remove_file(&cf);
    r
}

fn replay(path: &str) -> i32 {
    let Some(rf) = load_replay(path) else {
        eprintln!("cannot read replay file {}", path);
        return 2;
    };
    if props::get(&rf.property).is_none() {
        eprintln!("unknown property {}", rf.property);
        return 2;
    }
    let r = run_isolated(&rf.property, "replay", &rf.tape, "replay");
    match r.outcome.as_str() {
        "pass" | "discard" => {
            println!("replay {}: {} (property held on this case)", path, r.outcome);
            0
        }
        "fail" | "abort" => {
            println!("{}", r.rendered);
            println!("signature: {}\ndetail: {}", r.sig, r.detail);
            println!("VIOLATION property={} replay={}", rf.property, path);
            1
        }
        _ => 2,
    }
}

fn run(id: &str, tier_s: &str) -> i32 {
    let t0 = Instant::now();
    let tier = tier_of(tier_s);
    let Some(d) = props::get(id) else {
        eprintln!("unknown property {}", id);
        return 2;
    };
    let root = root();
    let seed = seed();
    let findings = Findings::load(&findings_path());
    let dir = scratch_dir();
    let out = format!("{}/worker.json", dir);
    let infl = format!("{}/inflight", dir);
    let exe = std::env::current_exe().unwrap();
    let mut violations: Vec<(String, String)> = vec![]; // (sig, replay path)
    let mut known_lines: BTreeMap<String, String> = BTreeMap::new();
    let mut stats = Stats::default();
    let mut infra: Option<String> = None;

    let budget_s: u64 = std::env::var("VERIF_TIMEOUT_S").ok().and_then(|s| s.parse().ok()).unwrap_or(match tier {
        Tier::Quick => 900,
        Tier::Thorough => 6 * 3600,
    });
    // C04 compares the outputs of several processes: the first worker records a digest per
    // case, the extra workers (same seed, hence the same cases) compare with it
    let digest = format!("{}/c04.digest", dir);
    let extra_procs: usize = if id == "C04" {
        std::env::var("VERIF_C04_PROCS").ok().and_then(|s| s.parse().ok()).unwrap_or(match tier {
            Tier::Quick => 4,
            Tier::Thorough => 8,
        }) - 1
    } else {
        0
    };
    let mut cmd = Command::new(&exe);
    cmd.args(["worker", id, tier_s, &seed.to_string(), &out, &infl]);
    if id == "C04" {
        cmd.env("VERIF_C04_OUT", &digest);
    }
    let mut child = cmd.spawn().expect("spawn worker");
    let status = loop {
        match child.try_wait() {
            Ok(Some(s)) => break Some(s),
            Ok(None) => {
                if t0.elapsed().as_secs() > budget_s {
                    let _ = child.kill();
                    let _ = child.wait();
                    break None;
                }
                std::thread::sleep(std::time::Duration::from_millis(50));
            }
            Err(_) => break None,
        }
    };
    match status {
        None => infra = Some(format!("worker exceeded the {} s safety budget (inconclusive)", budget_s)),
        Some(s) if s.success() => {
            match std::fs::read_to_string(&out).ok().and_then(|t| serde_json::from_str::<Value>(&t).ok()) {
                Some(v) => {
                    stats = stats_from_json(&v["stats"]);
                    if let Some(a) = v["violations"].as_array() {
                        for x in a {
                            let viol = viol_from_json(x);
                            if viol.sig.starts_with("harness:") {
                                infra = Some(format!("{}: {}", viol.sig, viol.detail));
                                continue;
                            }
                            let p = save_replay(&root, id, &viol);
                            eprintln!("--- violation {} ---\n{}\n{}", viol.sig, viol.detail, viol.rendered);
                            violations.push((viol.sig.clone(), p));
                        }
                    }
                }
                None => infra = Some("worker produced no result file".into()),
            }
        }
        Some(s) => {
            // the worker died: find the aborting case among the in-flight tapes
            let mut found = false;
            for (i, (tape, mode)) in InFlight::read_all(&infl).into_iter().enumerate() {
                let m = match mode {
                    Mode::Main => "main",
                    Mode::Probe => "probe",
                    Mode::Replay => "replay",
                };
                let r = run_isolated(id, m, &tape, &format!("inflight{}", i));
                if r.outcome == "abort" {
                    found = true;
                    if let Some(k) = findings.matches(id, &r.sig) {
                        // a listed abort: not a new violation, but generated search did not complete
                        known_lines.insert(k.id.clone(), k.what.clone());
                        infra = Some(format!(
                            "worker aborted on a case of known finding {} (steering should have avoided it)",
                            k.id
                        ));
                    } else {
                        let viol = Violation { sig: r.sig.clone(), detail: r.detail.clone(), tape, mode, rendered: r.rendered };
                        let p = save_replay(&root, id, &viol);
                        violations.push((viol.sig, p));
                    }
                }
            }
            if !found {
                infra = Some(format!("worker died ({:?}) and no in-flight case reproduces it", s));
            }
        }
    }

    // extra processes of C04
    if infra.is_none() && violations.is_empty() {
        for k in 0..extra_procs {
            let outk = format!("{}/worker{}.json", dir, k + 1);
            let inflk = format!("{}/inflight{}", dir, k + 1);
            let st = Command::new(&exe)
                .args(["worker", id, tier_s, &seed.to_string(), &outk, &inflk])
                .env("VERIF_C04_REF", &digest)
                .status();
            match st {
                Ok(s) if s.success() => match std::fs::read_to_string(&outk).ok().and_then(|t| serde_json::from_str::<Value>(&t).ok()) {
                    Some(v) => {
                        let stk = stats_from_json(&v["stats"]);
                        *stats.classes.entry("processes".into()).or_insert(1) += 1;
                        stats.merge(stk);
                        if let Some(a) = v["violations"].as_array() {
                            for x in a {
                                let viol = viol_from_json(x);
                                if viol.sig.starts_with("harness:") {
                                    infra = Some(format!("{}: {}", viol.sig, viol.detail));
                                    continue;
                                }
                                if violations.iter().any(|(s, _)| *s == viol.sig) {
                                    continue;
                                }
                                let p = save_replay(&root, id, &viol);
                                eprintln!("--- violation {} (process {}) ---\n{}\n{}", viol.sig, k + 2, viol.detail, viol.rendered);
                                violations.push((viol.sig.clone(), p));
                            }
                        }
                    }
                    None => infra = Some(format!("extra worker {} produced no result file", k + 1)),
                },
                _ => infra = Some(format!("extra worker {} died", k + 1)),
            }
        }
    }

    // replay tier: every committed file under replays/<ID>/
    let mut replays_run = 0u64;
    let rdir = format!("{}/replays/{}", root, id);
    if let Ok(rd) = std::fs::read_dir(&rdir) {
        let mut files: Vec<_> = rd.filter_map(|e| e.ok()).map(|e| e.path()).filter(|p| p.extension().map(|x| x == "json").unwrap_or(false)).collect();
        files.sort();
        for p in files {
            let ps = p.to_string_lossy().to_string();
            if violations.iter().any(|(_, vp)| *vp == ps) {
                continue; // written by this very run
            }
            let Some(rf) = load_replay(&ps) else { continue };
            if rf.property != id {
                continue;
            }
            replays_run += 1;
            let r = run_isolated(id, "replay", &rf.tape, "tier");
            let failed = r.outcome == "fail" || r.outcome == "abort";
            if r.outcome == "infra" {
                infra = Some(format!("replay {} could not be executed: {}", ps, r.detail));
                continue;
            }
            if failed {
                if let Some(k) = findings.matches(id, &r.sig) {
                    known_lines.insert(k.id.clone(), k.what.clone());
                    let e = stats.known.entry(k.id.clone()).or_insert((0, r.detail.clone()));
                    e.0 += 1;
                } else {
                    eprintln!("--- replay {} fails: {} ---\n{}\n{}", ps, r.sig, r.detail, r.rendered);
                    violations.push((r.sig.clone(), ps.clone()));
                }
            }
        }
    }
    for (k, _) in stats.known.iter() {
        if let Some(f) = findings.list.iter().find(|f| f.id == *k) {
            known_lines.insert(k.clone(), f.what.clone());
        }
    }

    // vacuity guards
    if infra.is_none() && violations.is_empty() {
        if stats.evaluations > 0 && stats.gen_invalid * 100 > stats.evaluations {
            infra = Some(format!("generator self-check: {} invalid of {} cases (>1%)", stats.gen_invalid, stats.evaluations));
        } else if stats.nontrivial.len() < 2 {
            infra = Some(format!("vacuous run: {} non-trivial cases of {}", stats.nontrivial.len(), stats.evaluations));
        }
    }

    // evidence
    let wall = t0.elapsed().as_secs_f64();
    let samples: Vec<Value> = if stats.samples.is_empty() {
        vec![json!("(no sample rendered)")]
    } else {
        stats.samples.iter().map(|s| json!(s)).collect()
    };
    let ev = json!({
        "property_id": id,
        "tier": tier.name(),
        "seed": seed as i64,
        "level": "exploration",
        "coverage": {
            "evaluations": stats.evaluations,
            "distinct_nontrivial": stats.nontrivial.len(),
            "rule": d.rule(),
            "samples": samples,
            "classes": stats.classes,
            "discarded": stats.discards,
            "excluded_known": stats.excluded,
            "gen_invalid": stats.gen_invalid,
            "known_findings_reproduced": stats.known.iter().map(|(k,(n,_))| (k.clone(), *n)).collect::<BTreeMap<_,_>>(),
            "replays_run": replays_run,
            "repeats_of_reported_violations": stats.muted_repeats,
            "threads": threads(),
            "exhaustive": false,
        },
        "assumptions": d.assumptions(),
        "wall_s": wall,
        "violations": violations.len(),
        "infrastructure_problem": infra,
    });
    let _ = std::fs::create_dir_all(format!("{}/evidence", root));
    let _ = std::fs::write(format!("{}/evidence/{}.json", root, id), serde_json::to_string_pretty(&ev).unwrap());
    let _ = std::fs::remove_dir_all(&dir);

    for (k, what) in &known_lines {
        println!("KNOWN-FINDING: property={} {} [{}]", id, what, k);
    }
    println!(
        "{} {}: {} cases, {} distinct non-trivial, {} discarded, {} replays, {:.1}s",
        id,
        tier.name(),
        stats.evaluations,
        stats.nontrivial.len(),
        stats.discards.values().sum::<u64>(),
        replays_run,
        wall
    );
    if !violations.is_empty() {
        for (sig, p) in &violations {
            println!("VIOLATION property={} replay={}   ({})", id, p, sig);
        }
        return 1;
    }
    if let Some(m) = infra {
        println!("INCONCLUSIVE property={} {}", id, m);
        return 2;
    }
    0
}

fn main() {
    let args: Vec<String> = std::env::args().skip(1).collect();
    let code = match args.first().map(|s| s.as_str()) {
        Some("run") if args.len() >= 3 => run(&args[1], &args[2]),
        Some("replay") if args.len() >= 2 => replay(&args[1]),
        Some("worker") if args.len() >= 6 => worker(&args[1..]),
        Some("one") if args.len() >= 5 => one(&args[1..]),
        Some("deepnest") if args.len() >= 3 => {
            // calibration helper: parse a depth-N nest on a thread with the given stack (MB)
            let depth: usize = args[1].parse().unwrap_or(10);
            let mb: usize = args[2].parse().unwrap_or(8);
            let bytes = vharness::props::c03::deep_nest(depth, false);
            let t0 = Instant::now();
            let r = std::thread::Builder::new()
                .stack_size(mb << 20)
                .spawn(move || wirm::Component::parse(&bytes, false).is_ok())
                .unwrap()
                .join();
            println!("depth {} stack {}MB -> {:?} in {:?}", depth, mb, r.is_ok(), t0.elapsed());
            0
        }
        Some("dump") if args.len() >= 3 => {
            // dump <exec|static|edit> <seed> [len]: print one generated module (generator inspection)
            use vharness::gen::{gen_module, GenCfg, Kind, Profile};
            let kind = match args[1].as_str() {
                "exec" => Kind::Exec,
                "edit" => Kind::Edit,
                _ => Kind::Static,
            };
            let seed: u64 = args[2].parse().unwrap_or(1);
            let len: usize = args.get(3).and_then(|s| s.parse().ok()).unwrap_or(2048);
            let mut x = seed.wrapping_mul(0x9E3779B97F4A7C15) | 1;
            let tape: Vec<u8> = (0..len)
                .map(|_| {
                    x ^= x << 13;
                    x ^= x >> 7;
                    x ^= x << 17;
                    (x >> 24) as u8
                })
                .collect();
            let mut t = vharness::tape::Tape::new(&tape);
            let mut profile = Profile::from_tape(&mut t);
            if kind == Kind::Exec {
                profile.multivalue = true;
                profile.tail = true;
            }
            let cfg = GenCfg::new(kind, profile);
            let m = gen_module(&mut t, &cfg);
            let bytes = m.encode();
            println!("{}", vharness::dec::module::print_wat(&bytes));
            println!(";; valid: {:?}", vharness::dec::module::validate(&bytes));
            0
        }
        Some("adopt-tape") if args.len() >= 3 => {
            // adopt-tape <ID> <file> [raw]: run a libFuzzer artifact (a tape; with `raw`: a raw
            // input for C03) in a fresh process of THIS build; a reproducible failure that is no
            // known finding is saved as a replay file and reported
            let id = args[1].clone();
            let mut tape = std::fs::read(&args[2]).unwrap_or_default();
            if args.get(3).map(|s| s == "raw").unwrap_or(false) {
                let mut t = b"RAW\0".to_vec();
                t.extend(tape);
                tape = t;
            }
            let findings = Findings::load(&findings_path());
            let r = run_isolated(&id, "main", &tape, "adopt");
            match r.outcome.as_str() {
                "fail" | "abort" => {
                    if let Some(k) = findings.matches(&id, &r.sig) {
                        println!("fuzz artifact {} reproduces known finding {}", args[2], k.id);
                        0
                    } else {
                        let v = Violation { sig: r.sig.clone(), detail: r.detail, tape, mode: Mode::Main, rendered: r.rendered };
                        let p = save_replay(&root(), &id, &v);
                        println!("VIOLATION property={} replay={}   ({}) [found by libFuzzer]", id, p, r.sig);
                        1
                    }
                }
                "infra" => 2,
                _ => {
                    println!("fuzz artifact {} does not fail on the harness build ({}): not reported", args[2], r.outcome);
                    0
                }
            }
        }
        Some("fuzz-evidence") if args.len() >= 5 => {
            // fuzz-evidence <ID> <execs> <crashes> <note>: record the libFuzzer stage in the evidence file
            let path = format!("{}/evidence/{}.json", root(), args[1]);
            if let Some(mut v) = std::fs::read_to_string(&path).ok().and_then(|t| serde_json::from_str::<Value>(&t).ok()) {
                v["coverage"]["fuzz_execs"] = json!(args[2].parse::<u64>().unwrap_or(0));
                v["coverage"]["fuzz_artifacts"] = json!(args[3].parse::<u64>().unwrap_or(0));
                v["coverage"]["fuzz_note"] = json!(args[4]);
                let _ = std::fs::write(&path, serde_json::to_string_pretty(&v).unwrap());
            }
            0
        }
        Some("tape-len") if args.len() >= 2 => {
            println!("{}", props::get(&args[1]).map(|d| d.tape_len()).unwrap_or(2048));
            0
        }
        Some("compgen") if args.len() >= 2 => {
            // compgen <n>: validity statistics of the component generator
            use vharness::gen::component::GenComp;
            let n: u64 = args[1].parse().unwrap_or(100);
            let mut reasons: BTreeMap<String, (u64, String)> = BTreeMap::new();
            let mut ok = 0;
            for seed in 1..=n {
                let mut x = seed.wrapping_mul(0x9E3779B97F4A7C15) | 1;
                let tape: Vec<u8> = (0..3000).map(|_| { x ^= x << 13; x ^= x >> 7; x ^= x << 17; (x >> 24) as u8 }).collect();
                let mut t = vharness::tape::Tape::new(&tape);
                let mut mg = |_t: &mut vharness::tape::Tape| -> Option<Vec<u8>> { None };
                let corpus: Vec<(String, Vec<u8>)> = vec![];
                let mut g = GenComp { module_gen: &mut mg, corpus: &corpus, max_depth: 4, classes: vec![] };
                let b = g.generate(&mut t);
                match vharness::dec::component::validate(&b) {
                    Ok(()) => ok += 1,
                    Err(e) => {
                        let key: String = e.split(" (at offset").next().unwrap_or(&e).chars().take(70).collect();
                        let ent = reasons.entry(key).or_insert((0, vharness::dec::component::print_wat(&b)));
                        ent.0 += 1;
                    }
                }
            }
            println!("valid {} of {}", ok, n);
            for (k, (c, ex)) in reasons {
                println!("== {} x {}\n{}", c, k, ex.chars().take(1500).collect::<String>());
            }
            0
        }
        Some("calibrate") if args.len() >= 3 => {
            // calibrate <n> <outdir>: write n generated G-exec programs with the reference
            // interpreter's results, for comparison with another engine (tools/calibrate.js, V8)
            use vharness::gen::{gen_module, GenCfg, Kind, Profile};
            use vharness::interp::{self, Machine, Stop, Val};
            let n: u64 = args[1].parse().unwrap_or(100);
            let _ = std::fs::create_dir_all(&args[2]);
            let mut written = 0;
            for seed in 1..=n {
                let mut x = seed.wrapping_mul(0x9E3779B97F4A7C15) | 1;
                let tape: Vec<u8> = (0..4096).map(|_| { x ^= x << 13; x ^= x >> 7; x ^= x << 17; (x >> 24) as u8 }).collect();
                let mut t = vharness::tape::Tape::new(&tape);
                let mut profile = Profile::from_tape(&mut t);
                profile.multivalue = true;
                profile.tail = true;
                profile.bulk = true;
                profile.exn = t.bool();
                // not available in the reference engine used for calibration (node 20)
                profile.multimem = false;
                profile.funcrefs = false;
                profile.mem64 = false;
                let mut cfg = GenCfg::new(Kind::Exec, profile);
                cfg.max_funcs = 4;
                cfg.max_stmts = 5;
                cfg.max_depth = 4;
                cfg.names = false;
                cfg.customs = false;
                let gm = gen_module(&mut t, &cfg);
                let bytes = gm.encode();
                if vharness::dec::module::validate(&bytes).is_err() {
                    continue;
                }
                let Ok(prog) = interp::load(&bytes) else { continue };
                let Ok(mut m) = Machine::instantiate(&prog, None, 200_000) else { continue };
                let mut calls = vec![];
                let mut skip = false;
                for (name, f) in prog.exports.iter().take(4) {
                    let (params, _) = &prog.types[prog.func_types[*f as usize] as usize];
                    for _ in 0..2 {
                        let args: Vec<Val> = params
                            .iter()
                            .map(|p| match p {
                                wasmparser::ValType::I32 => Val::I32(t.i32v()),
                                wasmparser::ValType::I64 => Val::I64(t.i64v()),
                                // signalling NaNs are quietened when they pass through JS numbers
                                wasmparser::ValType::F32 => {
                                    let b = t.f32bits();
                                    Val::F32(if f32::from_bits(b).is_nan() { b | 0x0040_0000 } else { b })
                                }
                                wasmparser::ValType::F64 => {
                                    let b = t.f64bits();
                                    Val::F64(if f64::from_bits(b).is_nan() { b | 0x0008_0000_0000_0000 } else { b })
                                }
                                _ => Val::Ref(None),
                            })
                            .collect();
                        m.log.clear();
                        let r = m.call(*f, args.clone());
                        let show = |v: &Val| match v {
                            Val::I32(x) => json!({"t":"i32","v":x.to_string()}),
                            Val::I64(x) => json!({"t":"i64","v":x.to_string()}),
                            Val::F32(b) => json!({"t":"f32","v":b.to_string()}),
                            Val::F64(b) => json!({"t":"f64","v":b.to_string()}),
                            Val::Ref(_) => json!({"t":"ref","v":"null"}),
                        };
                        let out = match &r {
                            Ok(vs) => json!({"ok": vs.iter().map(show).collect::<Vec<_>>()}),
                            Err(Stop::Trap(msg)) => json!({"trap": msg}),
                            Err(Stop::Exception(_)) => json!({"exception": true}),
                            Err(_) => {
                                skip = true;
                                json!(null)
                            }
                        };
                        calls.push(json!({"name": name, "args": args.iter().map(show).collect::<Vec<_>>(), "expect": out, "log": m.log.clone()}));
                    }
                }
                if skip {
                    continue;
                }
                let globals: Vec<Value> = prog.globals.iter().filter_map(|(ty, _mutable, init)| match init {
                    interp::GInit::Import(k) => Some(json!({"k": k, "ty": format!("{:?}", ty)})),
                    _ => None,
                }).collect();
                let _ = std::fs::write(format!("{}/case{:05}.wasm", args[2], seed), &bytes);
                let _ = std::fs::write(format!("{}/case{:05}.json", args[2], seed), serde_json::to_string(&json!({"calls": calls, "imported_globals": globals})).unwrap());
                written += 1;
            }
            println!("{} cases written", written);
            0
        }
        Some("print") if args.len() >= 2 => {
            let b = std::fs::read(&args[1]).unwrap_or_default();
            println!("{}", vharness::dec::module::print_wat(&b));
            0
        }
        Some("corpus-dump") if args.len() >= 2 => {
            // corpus-dump <dir>: write the extracted test inputs as files (fuzzing seeds)
            let _ = std::fs::create_dir_all(&args[1]);
            let mut n = 0;
            for (k, (_, b)) in vharness::corpus::components().iter().chain(vharness::corpus::modules().iter()).enumerate() {
                if b.len() <= 16384 {
                    let _ = std::fs::write(format!("{}/seed{:04}.wasm", args[1], k), b);
                    n += 1;
                }
            }
            println!("{} files", n);
            0
        }
        Some("corpus") => {
            let c = vharness::corpus::components();
            let m = vharness::corpus::modules();
            println!("{} components, {} modules", c.len(), m.len());
            for (n, b) in c.iter().take(400) {
                let st = vharness::dec::component::decode(b).map(|i| vharness::dec::component::stats(&i));
                match st {
                    Ok(s) => println!("{} bytes depth {} items {} kinds {:?}  {}", b.len(), s.depth, s.items, s.kinds, n),
                    Err(e) => println!("UNDECODABLE {} {}", n, e),
                }
            }
            0
        }
        Some("list") => {
            for id in props::all_ids() {
                println!("{}", id);
            }
            0
        }
        _ => {
            eprintln!("usage: vcheck run <ID> <quick|thorough> | replay <file> | list");
            2
        }
    };
    std::process::exit(code);
}
