//! Panic and log capture around library calls.

use std::cell::RefCell;
use std::panic::{catch_unwind, AssertUnwindSafe};
use std::sync::Once;

#[derive(Clone, Debug)]
pub struct PanicInfo {
    pub file: String,
    pub line: u32,
    pub msg: String,
}

impl PanicInfo {
    /// (file suffix, message with digits masked, truncated): stable under unrelated edits.
    pub fn signature(&self) -> String {
        let f = self.file.rsplit("/src/").next().unwrap_or(&self.file).to_string();
        // the constant part of the message: up to the first ": " (format arguments follow it)
        let head = match self.msg.find(": ") {
            Some(i) if i >= 12 => &self.msg[..i],
            _ => &self.msg[..],
        };
        format!("panic:{}:{}", f, mask(head, 60))
    }
    pub fn in_library(&self) -> bool {
        self.file.starts_with("/repo/") || self.file.starts_with("src/") || self.file.contains("/repo/src/")
    }
}

/// Replace digit runs by '#', cut to n chars; keeps signatures independent of indices.
pub fn mask(s: &str, n: usize) -> String {
    let mut out = String::new();
    let mut last_digit = false;
    for ch in s.chars() {
        if ch.is_ascii_digit() {
            if !last_digit {
                out.push('#');
            }
            last_digit = true;
        } else {
            last_digit = false;
            out.push(if ch == '\n' { ' ' } else { ch });
        }
        if out.len() >= n {
            break;
        }
    }
    out
}

thread_local! {
    static LAST_PANIC: RefCell<Option<PanicInfo>> = const { RefCell::new(None) };
    static LOGS: RefCell<Vec<(log::Level, String)>> = const { RefCell::new(Vec::new()) };
    static QUIET: RefCell<bool> = const { RefCell::new(true) };
}

static INIT: Once = Once::new();

struct CapLogger;
impl log::Log for CapLogger {
    fn enabled(&self, m: &log::Metadata) -> bool {
        m.level() <= log::Level::Warn
    }
    fn log(&self, r: &log::Record) {
        if r.level() <= log::Level::Warn {
            LOGS.with(|l| {
                let mut l = l.borrow_mut();
                if l.len() < 64 {
                    l.push((r.level(), format!("{}", r.args())));
                }
            });
        }
    }
    fn flush(&self) {}
}
static LOGGER: CapLogger = CapLogger;

pub fn init() {
    INIT.call_once(|| {
        std::panic::set_hook(Box::new(|info| {
            let (file, line) = info
                .location()
                .map(|l| (l.file().to_string(), l.line()))
                .unwrap_or_else(|| ("?".into(), 0));
            let msg = if let Some(s) = info.payload().downcast_ref::<&str>() {
                s.to_string()
            } else if let Some(s) = info.payload().downcast_ref::<String>() {
                s.clone()
            } else {
                "<non-string panic>".to_string()
            };
            let quiet = QUIET.with(|q| *q.borrow());
            if !quiet {
                eprintln!("panic at {}:{}: {}", file, line, msg);
            }
            LAST_PANIC.with(|p| *p.borrow_mut() = Some(PanicInfo { file, line, msg }));
        }));
        let _ = log::set_logger(&LOGGER);
        log::set_max_level(log::LevelFilter::Warn);
    });
}

pub fn set_quiet(q: bool) {
    QUIET.with(|c| *c.borrow_mut() = q);
}

/// Run a closure that calls into the library; a panic becomes an Err.
pub fn run_lib<T>(f: impl FnOnce() -> T) -> Result<T, PanicInfo> {
    init();
    LAST_PANIC.with(|p| *p.borrow_mut() = None);
    match catch_unwind(AssertUnwindSafe(f)) {
        Ok(v) => Ok(v),
        Err(_) => Err(LAST_PANIC.with(|p| p.borrow_mut().take()).unwrap_or(PanicInfo {
            file: "?".into(),
            line: 0,
            msg: "panic without hook info".into(),
        })),
    }
}

pub fn take_logs() -> Vec<(log::Level, String)> {
    LOGS.with(|l| std::mem::take(&mut *l.borrow_mut()))
}
pub fn clear_logs() {
    LOGS.with(|l| l.borrow_mut().clear());
}

/// Breadcrumb for aborts: in an isolated single-case process (VERIF_CRUMB_FILE set) the driver
/// records the trigger class of the case before it calls the library, so that an abort can be
/// reported with a signature more specific than the signal number.
pub fn crumb(s: &str) {
    if let Ok(p) = std::env::var("VERIF_CRUMB_FILE") {
        let _ = std::fs::write(p, s);
    }
}
