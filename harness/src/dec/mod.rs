pub mod module;
