pub mod component;
pub mod module;
