//! Independent decoder / comparator for components (C27).
//!
//! A component is decoded, with wasmparser only, into a tree: per nesting level the sequence
//! of items in binary order.  Section framing is not part of the tree (the items of adjacent
//! or separated sections of one kind simply follow one another in order), so the library may
//! re-group sections; the order of items across kinds, their content, core modules (compared
//! through `dec::module`'s flattened form) and nested components (recursively) are.
use super::module as dm;
use wasmparser::{Parser, Payload};

#[derive(Debug, Clone)]
pub enum CItem {
    Module(Vec<u8>),
    Component(Vec<CItem>),
    Custom(String, Vec<u8>),
    /// (section kind, canonical text of one item)
    Item(&'static str, String),
}

/// remove byte-offset information from a Debug rendering
fn scrub(s: String) -> String {
    let mut out = String::with_capacity(s.len());
    let mut rest = s.as_str();
    loop {
        let i = match (rest.find("offset: "), rest.find("range: ")) {
            (Some(a), Some(b)) => a.min(b),
            (Some(a), None) => a,
            (None, Some(b)) => b,
            (None, None) => break,
        };
        let key_len = if rest[i..].starts_with("offset: ") { 8 } else { 7 };
        out.push_str(&rest[..i + key_len]);
        let tail = &rest[i + key_len..];
        let n = tail.chars().take_while(|c| c.is_ascii_digit() || *c == '.').count();
        out.push('#');
        rest = &tail[n..];
    }
    out.push_str(rest);
    // rec groups carry the offset of each sub type as the first tuple field: `(123, SubType {`
    let s = out;
    let mut out = String::with_capacity(s.len());
    let mut rest = s.as_str();
    while let Some(i) = rest.find(", SubType {") {
        // walk back over the digits in front of the comma
        let head = &rest[..i];
        let digits = head.chars().rev().take_while(|c| c.is_ascii_digit()).count();
        out.push_str(&head[..head.len() - digits]);
        if digits > 0 {
            out.push('#');
        }
        out.push_str(", SubType {");
        rest = &rest[i + ", SubType {".len()..];
    }
    out.push_str(rest);
    out
}

/// decoded content of a `component-name` custom section: sorted "sort/index=name" lines
fn component_names(data: &[u8]) -> Option<Vec<String>> {
    let mut v = vec![];
    let r = wasmparser::ComponentNameSectionReader::new(wasmparser::BinaryReader::new(data, 0));
    for sub in r {
        let sub = sub.ok()?;
        use wasmparser::ComponentName as N;
        let (sort, map) = match sub {
            N::Component { name, .. } => {
                v.push(format!("component={}", name));
                continue;
            }
            N::CoreFuncs(m) => ("core-func", m),
            N::CoreGlobals(m) => ("core-global", m),
            N::CoreMemories(m) => ("core-memory", m),
            N::CoreTables(m) => ("core-table", m),
            N::CoreTags(m) => ("core-tag", m),
            N::CoreModules(m) => ("core-module", m),
            N::CoreInstances(m) => ("core-instance", m),
            N::CoreTypes(m) => ("core-type", m),
            N::Types(m) => ("type", m),
            N::Instances(m) => ("instance", m),
            N::Components(m) => ("component", m),
            N::Funcs(m) => ("func", m),
            N::Values(m) => ("value", m),
            N::Unknown { ty, .. } => {
                v.push(format!("unknown-subsection-{}", ty));
                continue;
            }
        };
        for n in map {
            let n = n.ok()?;
            v.push(format!("{}/{}={}", sort, n.index, n.name));
        }
    }
    v.sort();
    Some(v)
}

pub fn decode(bytes: &[u8]) -> Result<Vec<CItem>, String> {
    let mut stack: Vec<Vec<CItem>> = vec![vec![]];
    // decoded component names per open nesting level (appended to the level when it closes)
    let mut names_stack: Vec<Vec<String>> = vec![vec![]];
    // > 0 while inside a core module (its payloads are skipped; the bytes are kept whole)
    let mut in_module = 0usize;
    for p in Parser::new(0).parse_all(bytes) {
        let p = p.map_err(|e| e.to_string())?;
        if in_module > 0 {
            match p {
                Payload::End(_) => in_module -= 1,
                Payload::ModuleSection { .. } | Payload::ComponentSection { .. } => in_module += 1,
                _ => {}
            }
            continue;
        }
        macro_rules! items {
            ($kind:expr, $reader:expr) => {{
                for it in $reader {
                    let it = it.map_err(|e| e.to_string())?;
                    stack.last_mut().unwrap().push(CItem::Item($kind, scrub(format!("{:?}", it))));
                }
            }};
        }
        match p {
            Payload::Version { .. } => {}
            Payload::ModuleSection { unchecked_range, .. } => {
                let b = bytes.get(unchecked_range.start..unchecked_range.end).ok_or("module range")?.to_vec();
                stack.last_mut().unwrap().push(CItem::Module(b));
                in_module = 1;
            }
            Payload::ComponentSection { .. } => {
                stack.push(vec![]);
                names_stack.push(vec![]);
            }
            Payload::End(_) => {
                if stack.len() > 1 {
                    let mut done = stack.pop().unwrap();
                    let mut names = names_stack.pop().unwrap_or_default();
                    names.sort();
                    for n in names {
                        done.push(CItem::Item("name", n));
                    }
                    stack.last_mut().unwrap().push(CItem::Component(done));
                }
            }
            Payload::CustomSection(c) => {
                if c.name() == "component-name" {
                    // like a module's name section: decoded names count, layout and position do not
                    if let Some(names) = component_names(c.data()) {
                        names_stack.last_mut().unwrap().extend(names);
                        continue;
                    }
                }
                stack.last_mut().unwrap().push(CItem::Custom(c.name().to_string(), c.data().to_vec()))
            }
            Payload::CoreTypeSection(r) => items!("core-type", r),
            Payload::ComponentTypeSection(r) => items!("type", r),
            Payload::ComponentImportSection(r) => items!("import", r),
            Payload::ComponentExportSection(r) => items!("export", r),
            Payload::ComponentAliasSection(r) => items!("alias", r),
            Payload::InstanceSection(r) => items!("core-instance", r),
            Payload::ComponentInstanceSection(r) => items!("instance", r),
            Payload::ComponentCanonicalSection(r) => items!("canon", r),
            Payload::ComponentStartSection { start, .. } => stack.last_mut().unwrap().push(CItem::Item("start", scrub(format!("{:?}", start)))),
            other => return Err(format!("unexpected payload in a component: {:?}", other).chars().take(120).collect()),
        }
    }
    let mut top = stack.pop().unwrap_or_default();
    let mut names = names_stack.pop().unwrap_or_default();
    names.sort();
    for n in names {
        top.push(CItem::Item("name", n));
    }
    Ok(top)
}

pub struct CStats {
    pub depth: usize,
    pub modules: usize,
    pub components: usize,
    pub items: usize,
    pub kinds: std::collections::BTreeSet<&'static str>,
    /// some kind occurs in two runs separated by another kind (non-adjacent sections of one kind)
    pub interleaved: bool,
}

pub fn stats(items: &[CItem]) -> CStats {
    let mut s = CStats { depth: 0, modules: 0, components: 0, items: 0, kinds: Default::default(), interleaved: false };
    fn kind_of(i: &CItem) -> &'static str {
        match i {
            CItem::Module(_) => "module",
            CItem::Component(_) => "component",
            CItem::Custom(..) => "custom",
            CItem::Item(k, _) => k,
        }
    }
    fn walk(items: &[CItem], d: usize, s: &mut CStats) {
        s.depth = s.depth.max(d);
        let mut seen: Vec<&'static str> = vec![];
        let mut prev = "";
        for i in items {
            let k = kind_of(i);
            s.kinds.insert(k);
            if k != prev {
                if seen.contains(&k) && k != "custom" {
                    s.interleaved = true;
                }
                seen.push(k);
                prev = k;
            }
            match i {
                CItem::Module(_) => s.modules += 1,
                CItem::Component(c) => {
                    s.components += 1;
                    walk(c, d + 1, s);
                }
                _ => s.items += 1,
            }
        }
    }
    walk(items, 0, &mut s);
    s
}

/// First difference between two decoded components: (path, class, detail).
pub fn first_diff(a: &[CItem], b: &[CItem], path: &str) -> Option<(String, String, String)> {
    for k in 0..a.len().max(b.len()) {
        let here = format!("{}[{}]", path, k);
        match (a.get(k), b.get(k)) {
            (Some(x), Some(y)) => match (x, y) {
                (CItem::Module(m1), CItem::Module(m2)) => {
                    if m1 == m2 {
                        continue;
                    }
                    let (d1, d2) = match (dm::decode(m1), dm::decode(m2)) {
                        (Ok(x), Ok(y)) => (x, y),
                        (Err(_), Err(_)) => continue,
                        (_, Err(e)) | (Err(e), _) => return Some((here, "module-undecodable".into(), e)),
                    };
                    let opts = dm::FlatOpts { by_identity: false, include_names: true, include_customs: true };
                    let fa = dm::flatten(&d1, &dm::Ids::trivial(&d1), &opts);
                    let fb = dm::flatten(&d2, &dm::Ids::trivial(&d2), &opts);
                    if let Some((p, e, o)) = dm::first_diff(&fa, &fb) {
                        return Some((here, format!("module:{}", dm::path_class(&p)), format!("{}: input {:?}, output {:?}", p, e, o)));
                    }
                }
                (CItem::Component(c1), CItem::Component(c2)) => {
                    if let Some(d) = first_diff(c1, c2, &here) {
                        return Some(d);
                    }
                }
                (CItem::Custom(n1, d1), CItem::Custom(n2, d2)) => {
                    if n1 != n2 || d1 != d2 {
                        return Some((here, "custom".into(), format!("input custom section {:?} ({} bytes), output {:?} ({} bytes)", n1, d1.len(), n2, d2.len())));
                    }
                }
                (CItem::Item(k1, t1), CItem::Item(k2, t2)) => {
                    if k1 != k2 {
                        return Some((here, format!("order:{}-vs-{}", k1, k2), format!("input has a {} item here, output a {} item", k1, k2)));
                    }
                    if t1 != t2 {
                        return Some((here, format!("item:{}", k1), format!("input {}, output {}", t1, t2)));
                    }
                }
                (x, y) => {
                    return Some((here, format!("order:{}-vs-{}", short(x), short(y)), format!("input has {} here, output {}", short(x), short(y))));
                }
            },
            (Some(x), None) => return Some((here, format!("missing:{}", short(x)), format!("output ends, input still has {}", short(x)))),
            (None, Some(y)) => return Some((here, format!("extra:{}", short(y)), format!("input ends, output still has {}", short(y)))),
            (None, None) => {}
        }
    }
    None
}

fn short(i: &CItem) -> &'static str {
    match i {
        CItem::Module(_) => "module",
        CItem::Component(_) => "component",
        CItem::Custom(..) => "custom",
        CItem::Item(k, _) => k,
    }
}

pub fn validate(bytes: &[u8]) -> Result<(), String> {
    let mut v = wasmparser::Validator::new_with_features(wasmparser::WasmFeatures::all());
    v.validate_all(bytes).map(|_| ()).map_err(|e| e.to_string())
}

pub fn print_wat(bytes: &[u8]) -> String {
    wasmprinter::print_bytes(bytes).unwrap_or_else(|e| format!("<unprintable: {}>", e))
}
