//! Independent decoder: wasmparser only, never through the library.
//! A module is flattened into an ordered map  path -> value  in which every
//! function / global / memory index can be replaced by an *identity*, so that
//! equality of two maps is "same content" (C02) or "same content up to
//! re-indexing" (C06-C11, C29, C30).

use std::collections::BTreeMap;
use wasmparser::{
    BinaryReader, DataKind, ElementItems, ElementKind, ExternalKind, KnownCustom, Name, Operator, Parser, Payload, TypeRef,
};

#[derive(Clone, Debug, Default)]
pub struct DFunc {
    pub import: Option<(String, String)>,
    pub ty_idx: u32,
    pub locals: Vec<String>,
    pub ops: Vec<String>,
}

#[derive(Clone, Debug, Default)]
pub struct DGlobal {
    pub import: Option<(String, String)>,
    pub ty: String,
    pub init: Vec<String>,
}

#[derive(Clone, Debug)]
pub enum DItems {
    Funcs(Vec<u32>),
    Exprs(String, Vec<Vec<String>>),
}

#[derive(Clone, Debug)]
pub struct DElem {
    pub kind: String,
    pub table: Option<u32>,
    pub offset: Vec<String>,
    pub items: DItems,
}

#[derive(Clone, Debug)]
pub struct DData {
    pub mem: Option<u32>,
    pub offset: Vec<String>,
    pub bytes: Vec<u8>,
}

#[derive(Clone, Debug, Default)]
pub struct DNames {
    pub present: bool,
    pub module: Option<String>,
    pub funcs: BTreeMap<u32, String>,
    pub locals: BTreeMap<(u32, u32), String>,
    pub labels: BTreeMap<(u32, u32), String>,
    pub types: BTreeMap<u32, String>,
    pub tables: BTreeMap<u32, String>,
    pub mems: BTreeMap<u32, String>,
    pub globals: BTreeMap<u32, String>,
    pub elems: BTreeMap<u32, String>,
    pub datas: BTreeMap<u32, String>,
    pub fields: BTreeMap<(u32, u32), String>,
    pub tags: BTreeMap<u32, String>,
}

#[derive(Clone, Debug, Default)]
pub struct Dec {
    pub types: Vec<String>,
    pub groups: Vec<(usize, bool)>,
    pub imports: Vec<(String, String, String)>,
    pub funcs: Vec<DFunc>,
    pub tables: Vec<(Option<(String, String)>, String, Vec<String>)>,
    pub mems: Vec<(Option<(String, String)>, String)>,
    pub tags: Vec<String>,
    pub globals: Vec<DGlobal>,
    pub exports: Vec<(String, String, u32)>,
    pub start: Option<u32>,
    pub elems: Vec<DElem>,
    pub datas: Vec<DData>,
    pub data_count: Option<u32>,
    pub customs: Vec<(String, Vec<u8>)>,
    pub names: DNames,
    pub n_func_imports: usize,
    pub n_global_imports: usize,
    pub n_mem_imports: usize,
    pub code_bodies: usize,
    /// model use only: slots of the library's ID spaces whose entity was deleted
    pub deleted_f: std::collections::BTreeSet<u32>,
    pub deleted_g: std::collections::BTreeSet<u32>,
    pub deleted_m: std::collections::BTreeSet<u32>,
}

fn ops_of(expr: &wasmparser::ConstExpr) -> Result<Vec<String>, String> {
    let mut v = vec![];
    let mut r = expr.get_operators_reader();
    while !r.eof() {
        let op = r.read().map_err(|e| format!("const expr: {}", e))?;
        if matches!(op, Operator::End) && r.eof() {
            break;
        }
        v.push(format!("{:?}", op));
    }
    Ok(v)
}

pub fn decode(bytes: &[u8]) -> Result<Dec, String> {
    let mut d = Dec::default();
    let mut local_func_tys: Vec<u32> = vec![];
    let e = |e: wasmparser::BinaryReaderError| format!("{}", e);
    for payload in Parser::new(0).parse_all(bytes) {
        match payload.map_err(e)? {
            Payload::TypeSection(r) => {
                for rg in r {
                    let rg = rg.map_err(e)?;
                    let explicit = rg.is_explicit_rec_group();
                    let mut n = 0;
                    for st in rg.types() {
                        d.types.push(format!("{:?}", st));
                        n += 1;
                    }
                    d.groups.push((n, explicit));
                }
            }
            Payload::ImportSection(r) => {
                for im in r {
                    let im = im.map_err(e)?;
                    let m = (im.module.to_string(), im.name.to_string());
                    d.imports.push((m.0.clone(), m.1.clone(), format!("{:?}", im.ty)));
                    match im.ty {
                        TypeRef::Func(t) => {
                            d.funcs.push(DFunc { import: Some(m), ty_idx: t, ..Default::default() });
                            d.n_func_imports += 1;
                        }
                        TypeRef::Global(g) => {
                            d.globals.push(DGlobal { import: Some(m), ty: format!("{:?}", g), init: vec![] });
                            d.n_global_imports += 1;
                        }
                        TypeRef::Memory(mt) => {
                            d.mems.push((Some(m), format!("{:?}", mt)));
                            d.n_mem_imports += 1;
                        }
                        TypeRef::Table(tt) => d.tables.push((Some(m), format!("{:?}", tt), vec![])),
                        TypeRef::Tag(tg) => d.tags.push(format!("import {:?}", tg)),
                    }
                }
            }
            Payload::FunctionSection(r) => {
                for t in r {
                    local_func_tys.push(t.map_err(e)?);
                }
            }
            Payload::TableSection(r) => {
                for t in r {
                    let t = t.map_err(e)?;
                    let init = match t.init {
                        wasmparser::TableInit::RefNull => vec![],
                        wasmparser::TableInit::Expr(x) => ops_of(&x)?,
                    };
                    d.tables.push((None, format!("{:?}", t.ty), init));
                }
            }
            Payload::MemorySection(r) => {
                for m in r {
                    d.mems.push((None, format!("{:?}", m.map_err(e)?)));
                }
            }
            Payload::TagSection(r) => {
                for t in r {
                    d.tags.push(format!("{:?}", t.map_err(e)?));
                }
            }
            Payload::GlobalSection(r) => {
                for g in r {
                    let g = g.map_err(e)?;
                    d.globals.push(DGlobal { import: None, ty: format!("{:?}", g.ty), init: ops_of(&g.init_expr)? });
                }
            }
            Payload::ExportSection(r) => {
                for x in r {
                    let x = x.map_err(e)?;
                    let k = match x.kind {
                        ExternalKind::Func => "func",
                        ExternalKind::Table => "table",
                        ExternalKind::Memory => "memory",
                        ExternalKind::Global => "global",
                        ExternalKind::Tag => "tag",
                    };
                    d.exports.push((x.name.to_string(), k.to_string(), x.index));
                }
            }
            Payload::StartSection { func, .. } => d.start = Some(func),
            Payload::ElementSection(r) => {
                for el in r {
                    let el = el.map_err(e)?;
                    let (kind, table, offset) = match el.kind {
                        ElementKind::Passive => ("passive".to_string(), None, vec![]),
                        ElementKind::Declared => ("declared".to_string(), None, vec![]),
                        ElementKind::Active { table_index, offset_expr } => {
                            ("active".to_string(), Some(table_index.unwrap_or(0)), ops_of(&offset_expr)?)
                        }
                    };
                    let items = match el.items {
                        ElementItems::Functions(fr) => {
                            let mut v = vec![];
                            for f in fr {
                                v.push(f.map_err(e)?);
                            }
                            DItems::Funcs(v)
                        }
                        ElementItems::Expressions(rt, er) => {
                            let mut v = vec![];
                            for x in er {
                                v.push(ops_of(&x.map_err(e)?)?);
                            }
                            DItems::Exprs(format!("{:?}", rt), v)
                        }
                    };
                    d.elems.push(DElem { kind, table, offset, items });
                }
            }
            Payload::DataCountSection { count, .. } => d.data_count = Some(count),
            Payload::DataSection(r) => {
                for x in r {
                    let x = x.map_err(e)?;
                    let (mem, offset) = match x.kind {
                        DataKind::Passive => (None, vec![]),
                        DataKind::Active { memory_index, offset_expr } => (Some(memory_index), ops_of(&offset_expr)?),
                    };
                    d.datas.push(DData { mem, offset, bytes: x.data.to_vec() });
                }
            }
            Payload::CodeSectionEntry(body) => {
                let k = d.code_bodies;
                d.code_bodies += 1;
                let ty_idx = *local_func_tys.get(k).ok_or("more code bodies than functions")?;
                let mut locals = vec![];
                for l in body.get_locals_reader().map_err(e)? {
                    let (n, ty) = l.map_err(e)?;
                    if n > 100_000 {
                        return Err("absurd local count".into());
                    }
                    for _ in 0..n {
                        locals.push(format!("{:?}", ty));
                    }
                }
                let mut ops = vec![];
                for op in body.get_operators_reader().map_err(e)? {
                    ops.push(format!("{:?}", op.map_err(e)?));
                }
                d.funcs.push(DFunc { import: None, ty_idx, locals, ops });
            }
            Payload::CustomSection(c) => match c.as_known() {
                KnownCustom::Name(nr) => {
                    d.names.present = true;
                    read_names(nr, &mut d.names)?;
                }
                _ => d.customs.push((c.name().to_string(), c.data().to_vec())),
            },
            _ => {}
        }
    }
    if d.code_bodies != local_func_tys.len() {
        return Err(format!("function section has {} entries, code section {}", local_func_tys.len(), d.code_bodies));
    }
    Ok(d)
}

fn read_names(nr: wasmparser::NameSectionReader, n: &mut DNames) -> Result<(), String> {
    let e = |e: wasmparser::BinaryReaderError| format!("name section: {}", e);
    fn flat(m: wasmparser::NameMap, out: &mut BTreeMap<u32, String>) -> Result<(), String> {
        for x in m {
            let x = x.map_err(|e| format!("name section: {}", e))?;
            out.insert(x.index, x.name.to_string());
        }
        Ok(())
    }
    fn ind(m: wasmparser::IndirectNameMap, out: &mut BTreeMap<(u32, u32), String>) -> Result<(), String> {
        for x in m {
            let x = x.map_err(|e| format!("name section: {}", e))?;
            for y in x.names {
                let y = y.map_err(|e| format!("name section: {}", e))?;
                out.insert((x.index, y.index), y.name.to_string());
            }
        }
        Ok(())
    }
    for sub in nr {
        match sub.map_err(e)? {
            Name::Module { name, .. } => n.module = Some(name.to_string()),
            Name::Function(m) => flat(m, &mut n.funcs)?,
            Name::Local(m) => ind(m, &mut n.locals)?,
            Name::Label(m) => ind(m, &mut n.labels)?,
            Name::Type(m) => flat(m, &mut n.types)?,
            Name::Table(m) => flat(m, &mut n.tables)?,
            Name::Memory(m) => flat(m, &mut n.mems)?,
            Name::Global(m) => flat(m, &mut n.globals)?,
            Name::Element(m) => flat(m, &mut n.elems)?,
            Name::Data(m) => flat(m, &mut n.datas)?,
            Name::Field(m) => ind(m, &mut n.fields)?,
            Name::Tag(m) => flat(m, &mut n.tags)?,
            Name::Unknown { .. } => {}
        }
    }
    Ok(())
}

// ---------------------------------------------------------------------------------------
// identities

#[derive(Clone, Debug, Default)]
pub struct Ids {
    pub f: Vec<String>,
    pub g: Vec<String>,
    pub m: Vec<String>,
    /// true if two entities ended up with the same identity (generator/model problem)
    pub ambiguous: Option<String>,
}

impl Ids {
    pub fn trivial(d: &Dec) -> Ids {
        Ids {
            f: (0..d.funcs.len()).map(|i| format!("f{}", i)).collect(),
            g: (0..d.globals.len()).map(|i| format!("g{}", i)).collect(),
            m: (0..d.mems.len()).map(|i| format!("m{}", i)).collect(),
            ambiguous: None,
        }
    }
    /// G-edit convention: imports by (module, field); local functions by the leading
    /// `i64.const uid; drop`; local globals by (type, initialiser with identities);
    /// local memories by their (unique) limits.
    pub fn edit(d: &Dec) -> Ids {
        let mut ids = Ids::default();
        for (k, f) in d.funcs.iter().enumerate() {
            if d.deleted_f.contains(&(k as u32)) {
                ids.f.push(format!("F:DELETED({})", k));
                continue;
            }
            let id = match &f.import {
                Some((m, n)) => format!("F:imp:{}.{}", m, n),
                None => {
                    // the marker is the first `i64.const <uid>; drop` with a uid from the marker
                    // ranges; function-entry probes may place code in front of it
                    let mut found = None;
                    for (i, op) in f.ops.iter().enumerate().take(64) {
                        if let Some(v) = op.strip_prefix("I64Const { value: ").and_then(|r| r.strip_suffix(" }")).and_then(|r| r.parse::<i64>().ok()) {
                            let is_marker = (0x5EED_0000..0x5EEE_0000).contains(&v) || (0x7EED_0000..0x7EEE_0000).contains(&v);
                            if is_marker && f.ops.get(i + 1).map(|x| x == "Drop").unwrap_or(false) {
                                found = Some(v);
                                break;
                            }
                        }
                    }
                    match found {
                        Some(v) => format!("F:uid:{}", v),
                        None => format!("F:anon@{}", k),
                    }
                }
            };
            ids.f.push(id);
        }
        for (k, g) in d.globals.iter().enumerate() {
            if d.deleted_g.contains(&(k as u32)) {
                ids.g.push(format!("G:DELETED({})", k));
                continue;
            }
            let id = match &g.import {
                Some((m, n)) => format!("G:imp:{}.{}", m, n),
                None => {
                    let init: Vec<String> = g.init.iter().map(|o| subst_op(o, &ids, true)).collect();
                    format!("G:{}:{}", short_global_ty(&g.ty), init.join(";"))
                }
            };
            ids.g.push(id);
        }
        for (k, (imp, ty)) in d.mems.iter().enumerate() {
            if d.deleted_m.contains(&(k as u32)) {
                ids.m.push(format!("M:DELETED({})", k));
                continue;
            }
            ids.m.push(match imp {
                Some((m, n)) => format!("M:imp:{}.{}", m, n),
                None => format!("M:{}", ty),
            });
        }
        for (what, v) in [("function", &ids.f), ("global", &ids.g), ("memory", &ids.m)] {
            let mut seen = std::collections::BTreeSet::new();
            for x in v.iter() {
                if !x.contains("DELETED") && !seen.insert(x.clone()) {
                    ids.ambiguous = Some(format!("{} identity {} is not unique", what, x));
                }
            }
        }
        ids
    }
    pub fn fid(&self, i: u32) -> String {
        self.f.get(i as usize).cloned().unwrap_or_else(|| format!("F:OUT-OF-RANGE({})", i))
    }
    pub fn gid(&self, i: u32) -> String {
        self.g.get(i as usize).cloned().unwrap_or_else(|| format!("G:OUT-OF-RANGE({})", i))
    }
    pub fn mid(&self, i: u32) -> String {
        self.m.get(i as usize).cloned().unwrap_or_else(|| format!("M:OUT-OF-RANGE({})", i))
    }
}

fn short_global_ty(s: &str) -> String {
    s.replace("GlobalType ", "")
}

/// Replace `field: <digits>` by `field: <identity>`; the field name must start at a word boundary.
fn subst_field(text: &str, field: &str, f: &dyn Fn(u32) -> String) -> String {
    let pat = format!("{}: ", field);
    let mut out = String::with_capacity(text.len() + 16);
    let mut i = 0;
    let b = text.as_bytes();
    while i < text.len() {
        if text[i..].starts_with(&pat) && (i == 0 || !(b[i - 1].is_ascii_alphanumeric() || b[i - 1] == b'_')) {
            let st = i + pat.len();
            let mut en = st;
            while en < text.len() && b[en].is_ascii_digit() {
                en += 1;
            }
            if en > st {
                let n: u32 = text[st..en].parse().unwrap_or(u32::MAX);
                out.push_str(&pat);
                out.push_str(&f(n));
                i = en;
                continue;
            }
        }
        let ch = text[i..].chars().next().unwrap();
        out.push(ch);
        i += ch.len_utf8();
    }
    out
}

/// Operator text with function / global / memory indices replaced by identities.
/// The field names are those of `wasmparser::Operator` (all of them, not the library's list).
pub fn subst_op(op: &str, ids: &Ids, _in_const: bool) -> String {
    let mut s = op.to_string();
    if s.contains("function_index: ") {
        s = subst_field(&s, "function_index", &|i| ids.fid(i));
    }
    if s.contains("global_index: ") {
        s = subst_field(&s, "global_index", &|i| ids.gid(i));
    }
    if s.contains("mem") {
        for fld in ["memory", "mem", "dst_mem", "src_mem"] {
            if s.contains(fld) {
                s = subst_field(&s, fld, &|i| ids.mid(i));
            }
        }
    }
    s
}

/// Which reference kinds an operator text carries (for class counters and signatures).
pub fn op_name(op: &str) -> &str {
    op.split(|c: char| c == ' ' || c == '{' || c == '(').next().unwrap_or(op)
}

pub type Flat = BTreeMap<String, String>;

pub struct FlatOpts {
    /// key functions / globals / memories by identity instead of by index
    pub by_identity: bool,
    pub include_names: bool,
    pub include_customs: bool,
}

/// Flatten a decoded module.  With `by_identity`, entities are keyed by identity and the
/// order of functions/globals/memories in their index spaces is not part of the map.
pub fn flatten(d: &Dec, ids: &Ids, o: &FlatOpts) -> Flat {
    let mut m = Flat::new();
    let fkey = |i: usize| if o.by_identity { ids.fid(i as u32) } else { format!("{:05}", i) };
    let gkey = |i: usize| if o.by_identity { ids.gid(i as u32) } else { format!("{:05}", i) };
    let mkey = |i: usize| if o.by_identity { ids.mid(i as u32) } else { format!("{:05}", i) };
    for (i, t) in d.types.iter().enumerate() {
        m.insert(format!("type[{:05}]", i), t.clone());
    }
    if !o.by_identity {
        for (i, g) in d.groups.iter().enumerate() {
            m.insert(format!("recgroup[{:05}]", i), format!("{:?}", g));
        }
        for (i, im) in d.imports.iter().enumerate() {
            m.insert(format!("import[{:05}]", i), format!("{}.{} {}", im.0, im.1, im.2));
        }
    }
    for (i, f) in d.funcs.iter().enumerate() {
        if d.deleted_f.contains(&(i as u32)) {
            continue;
        }
        let k = fkey(i);
        let sig = d.types.get(f.ty_idx as usize).cloned().unwrap_or_else(|| format!("BAD-TYPE-INDEX {}", f.ty_idx));
        match &f.import {
            Some((mo, na)) => {
                m.insert(format!("func[{}].import", k), format!("{}.{}", mo, na));
                m.insert(format!("func[{}].sig", k), sig);
            }
            None => {
                m.insert(format!("func[{}].sig", k), sig);
                m.insert(format!("func[{}].nlocals", k), format!("{}", f.locals.len()));
                for (j, l) in f.locals.iter().enumerate() {
                    m.insert(format!("func[{}].local[{:04}]", k, j), l.clone());
                }
                m.insert(format!("func[{}].nops", k), format!("{}", f.ops.len()));
                for (j, op) in f.ops.iter().enumerate() {
                    m.insert(format!("func[{}].op[{:05}]", k, j), subst_op(op, ids, false));
                }
            }
        }
    }
    for (i, (imp, ty, init)) in d.tables.iter().enumerate() {
        m.insert(format!("table[{:05}]", i), format!("{:?} {}", imp, ty));
        for (j, op) in init.iter().enumerate() {
            m.insert(format!("table[{:05}].init[{:03}]", i, j), subst_op(op, ids, true));
        }
    }
    for (i, (imp, ty)) in d.mems.iter().enumerate() {
        if d.deleted_m.contains(&(i as u32)) {
            continue;
        }
        m.insert(format!("memory[{}]", mkey(i)), format!("{} {}", if imp.is_some() { "import" } else { "local" }, ty));
    }
    for (i, t) in d.tags.iter().enumerate() {
        m.insert(format!("tag[{:05}]", i), t.clone());
    }
    for (i, g) in d.globals.iter().enumerate() {
        if d.deleted_g.contains(&(i as u32)) {
            continue;
        }
        let k = gkey(i);
        m.insert(format!("global[{}].type", k), format!("{} {}", if g.import.is_some() { "import" } else { "local" }, g.ty));
        for (j, op) in g.init.iter().enumerate() {
            m.insert(format!("global[{}].init[{:03}]", k, j), subst_op(op, ids, true));
        }
    }
    m.insert("exports.count".into(), format!("{}", d.exports.len()));
    for (i, (name, kind, idx)) in d.exports.iter().enumerate() {
        let target = match kind.as_str() {
            "func" => ids.fid(*idx),
            "global" => ids.gid(*idx),
            "memory" => ids.mid(*idx),
            _ => format!("{}", idx),
        };
        m.insert(format!("export[{:05}]", i), format!("{:?} {} -> {}", name, kind, target));
    }
    if let Some(s) = d.start {
        m.insert("start".into(), ids.fid(s));
    }
    m.insert("elems.count".into(), format!("{}", d.elems.len()));
    for (i, el) in d.elems.iter().enumerate() {
        m.insert(format!("elem[{:05}].kind", i), format!("{} table={:?}", el.kind, el.table));
        for (j, op) in el.offset.iter().enumerate() {
            m.insert(format!("elem[{:05}].offset[{:03}]", i, j), subst_op(op, ids, true));
        }
        match &el.items {
            DItems::Funcs(v) => {
                m.insert(format!("elem[{:05}].nitems", i), format!("funcs {}", v.len()));
                for (j, f) in v.iter().enumerate() {
                    m.insert(format!("elem[{:05}].func[{:04}]", i, j), ids.fid(*f));
                }
            }
            DItems::Exprs(ty, v) => {
                m.insert(format!("elem[{:05}].nitems", i), format!("exprs {} {}", ty, v.len()));
                for (j, ops) in v.iter().enumerate() {
                    let s: Vec<String> = ops.iter().map(|o| subst_op(o, ids, true)).collect();
                    m.insert(format!("elem[{:05}].expr[{:04}]", i, j), s.join("; "));
                }
            }
        }
    }
    if let Some(c) = d.data_count {
        m.insert("datacount".into(), format!("{}", c));
    }
    m.insert("datas.count".into(), format!("{}", d.datas.len()));
    for (i, x) in d.datas.iter().enumerate() {
        m.insert(format!("data[{:05}].mem", i), x.mem.map(|mi| ids.mid(mi)).unwrap_or_else(|| "passive".into()));
        for (j, op) in x.offset.iter().enumerate() {
            m.insert(format!("data[{:05}].offset[{:03}]", i, j), subst_op(op, ids, true));
        }
        m.insert(format!("data[{:05}].bytes", i), crate::tape::hex(&x.bytes));
    }
    if o.include_customs {
        m.insert("customs.count".into(), format!("{}", d.customs.len()));
        for (i, (n, data)) in d.customs.iter().enumerate() {
            m.insert(format!("custom[{:05}]", i), format!("{:?} {}", n, crate::tape::hex(data)));
        }
    }
    if o.include_names {
        let n = &d.names;
        if let Some(x) = &n.module {
            m.insert("name.module".into(), x.clone());
        }
        for (i, x) in &n.funcs {
            if d.deleted_f.contains(i) {
                continue;
            }
            m.insert(format!("name.func[{}]", if o.by_identity { ids.fid(*i) } else { format!("{:05}", i) }), x.clone());
        }
        for ((f, l), x) in &n.locals {
            if d.deleted_f.contains(f) {
                continue;
            }
            m.insert(format!("name.local[{}][{:04}]", if o.by_identity { ids.fid(*f) } else { format!("{:05}", f) }, l), x.clone());
        }
        for ((f, l), x) in &n.labels {
            if d.deleted_f.contains(f) {
                continue;
            }
            m.insert(format!("name.label[{}][{:04}]", if o.by_identity { ids.fid(*f) } else { format!("{:05}", f) }, l), x.clone());
        }
        for (i, x) in &n.globals {
            if d.deleted_g.contains(i) {
                continue;
            }
            m.insert(format!("name.global[{}]", if o.by_identity { ids.gid(*i) } else { format!("{:05}", i) }), x.clone());
        }
        for (i, x) in &n.mems {
            if d.deleted_m.contains(i) {
                continue;
            }
            m.insert(format!("name.memory[{}]", if o.by_identity { ids.mid(*i) } else { format!("{:05}", i) }), x.clone());
        }
        for (pre, mp) in [("type", &n.types), ("table", &n.tables), ("elem", &n.elems), ("data", &n.datas), ("tag", &n.tags)] {
            for (i, x) in mp {
                m.insert(format!("name.{}[{:05}]", pre, i), x.clone());
            }
        }
        for ((t, f), x) in &n.fields {
            m.insert(format!("name.field[{:05}][{:04}]", t, f), x.clone());
        }
    }
    m
}

/// First difference between two flattened modules: (path, left, right)
pub fn first_diff(a: &Flat, b: &Flat) -> Option<(String, String, String)> {
    let mut ia = a.iter().peekable();
    let mut ib = b.iter().peekable();
    loop {
        match (ia.peek(), ib.peek()) {
            (None, None) => return None,
            (Some((k, v)), None) => return Some(((*k).clone(), (*v).clone(), "<absent>".into())),
            (None, Some((k, v))) => return Some(((*k).clone(), "<absent>".into(), (*v).clone())),
            (Some((ka, va)), Some((kb, vb))) => {
                if ka == kb {
                    if va != vb {
                        return Some(((*ka).clone(), (*va).clone(), (*vb).clone()));
                    }
                    ia.next();
                    ib.next();
                } else if ka < kb {
                    return Some(((*ka).clone(), (*va).clone(), "<absent>".into()));
                } else {
                    return Some(((*kb).clone(), "<absent>".into(), (*vb).clone()));
                }
            }
        }
    }
}

/// All differences (bounded), in key order.
pub fn all_diffs(a: &Flat, b: &Flat, max: usize) -> Vec<(String, String, String)> {
    let mut out = vec![];
    for (k, v) in a {
        match b.get(k) {
            Some(w) if w == v => {}
            Some(w) => out.push((k.clone(), v.clone(), w.clone())),
            None => out.push((k.clone(), v.clone(), "<absent>".to_string())),
        }
        if out.len() >= max {
            return out;
        }
    }
    for (k, w) in b {
        if !a.contains_key(k) {
            out.push((k.clone(), "<absent>".to_string(), w.clone()));
            if out.len() >= max {
                return out;
            }
        }
    }
    out
}

/// Signature component for a differing path: indices and identities masked.
pub fn path_class(path: &str) -> String {
    let mut out = String::new();
    let mut depth = 0;
    for ch in path.chars() {
        match ch {
            '[' => {
                depth += 1;
                out.push('[');
            }
            ']' => {
                depth -= 1;
                out.push(']');
            }
            _ if depth > 0 => {}
            _ => out.push(ch),
        }
    }
    out
}

/// Validate with every feature the generators may use.
pub fn validate(bytes: &[u8]) -> Result<(), String> {
    let mut v = wasmparser::Validator::new_with_features(wasmparser::WasmFeatures::all());
    v.validate_all(bytes).map(|_| ()).map_err(|e| format!("{}", e))
}

/// Debug text of operators given as wasm-encoder instructions (encode a body, decode it).
pub fn dbg_of_we(instrs: &[wasm_encoder::Instruction]) -> Vec<String> {
    use wasm_encoder as we;
    let mut m = we::Module::new();
    let mut t = we::TypeSection::new();
    t.ty().function([], []);
    m.section(&t);
    let mut f = we::FunctionSection::new();
    f.function(0);
    m.section(&f);
    let mut c = we::CodeSection::new();
    let mut func = we::Function::new([]);
    for i in instrs {
        func.instruction(i);
    }
    func.instruction(&we::Instruction::End);
    c.function(&func);
    m.section(&c);
    let b = m.finish();
    match decode(&b) {
        Ok(d) => {
            let mut ops = d.funcs[0].ops.clone();
            ops.pop();
            ops
        }
        Err(e) => vec![format!("<undecodable: {}>", e)],
    }
}

pub fn print_wat(bytes: &[u8]) -> String {
    wasmprinter::print_bytes(bytes).unwrap_or_else(|e| format!("<unprintable: {}>", e))
}

#[allow(dead_code)]
fn _unused(_: BinaryReader) {}
