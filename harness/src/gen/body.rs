//! Type-directed function body emitter: valid by construction.

use super::module::*;
use crate::tape::Tape;
use std::cell::RefCell;
use std::collections::BTreeSet;
use wasm_encoder as we;
use we::{BlockType, Instruction as I, MemArg};

#[derive(Clone, Copy, Debug)]
pub struct GlobalInfo {
    pub ty: VT,
    pub mutable: bool,
}

pub struct Shape {
    pub types: Vec<GType>,
    /// type index of every function in the index space (imports first)
    pub func_tys: Vec<u32>,
    pub n_func_imports: usize,
    pub globals: Vec<GlobalInfo>,
    pub mems: Vec<MemT>,
    pub tables: Vec<VT>,
    pub tags: Vec<u32>,
    pub passive_datas: Vec<u32>,
    pub n_datas: u32,
    pub func_elems: Vec<u32>,
    pub n_elems: u32,
    pub leaf_hi: usize,
    /// functions with index >= ref_limit are never referenced
    pub ref_limit: usize,
    pub host_log: bool,
    pub declared: RefCell<BTreeSet<u32>>,
    pub features: RefCell<BTreeSet<&'static str>>,
}

impl Shape {
    pub fn from_module(m: &GModule, local_func_tys: &[u32], cfg: &GenCfg, leaf_hi: usize, ref_limit: usize) -> Shape {
        let mut func_tys = vec![];
        let mut globals = vec![];
        let mut mems = vec![];
        let mut tables = vec![];
        let mut tags = vec![];
        for im in &m.imports {
            match &im.kind {
                GImportKind::Func(t) => func_tys.push(*t),
                GImportKind::Global(v, mu) => globals.push(GlobalInfo { ty: *v, mutable: *mu }),
                GImportKind::Memory(mt) => mems.push(*mt),
                GImportKind::Table(tt) => tables.push(tt.elem),
                GImportKind::Tag(t) => tags.push(*t),
            }
        }
        let n_func_imports = func_tys.len();
        func_tys.extend_from_slice(local_func_tys);
        for g in &m.globals {
            globals.push(GlobalInfo { ty: g.ty, mutable: g.mutable });
        }
        mems.extend(m.mems.iter().copied());
        tables.extend(m.tables.iter().map(|t| t.ty.elem));
        tags.extend(m.tags.iter().copied());
        let passive_datas = m.datas.iter().enumerate().filter(|(_, d)| d.active.is_none()).map(|(i, _)| i as u32).collect();
        let func_elems = m
            .elems
            .iter()
            .enumerate()
            .filter(|(_, e)| matches!(e.mode, GElemMode::Passive))
            .map(|(i, _)| i as u32)
            .collect();
        Shape {
            types: m.types.clone(),
            func_tys,
            n_func_imports,
            globals,
            mems,
            tables,
            tags,
            passive_datas,
            n_datas: m.datas.len() as u32,
            func_elems,
            n_elems: m.elems.len() as u32,
            leaf_hi,
            ref_limit,
            host_log: cfg.host_log,
            declared: RefCell::new(BTreeSet::new()),
            features: RefCell::new(BTreeSet::new()),
        }
    }
    pub fn sig(&self, ty: u32) -> (&[VT], &[VT]) {
        match &self.types[ty as usize].comp {
            GComposite::Func { params, results } => (params, results),
            _ => panic!("not a function type"),
        }
    }
}

struct Label {
    /// operand types a branch to this label carries
    tys: Vec<VT>,
    is_loop: bool,
    /// exec mode: the counter local guarding back-edges of this loop
    counter: Option<u32>,
}

fn memarg(offset: u64, align: u32, mem: u32) -> MemArg {
    MemArg { offset, align, memory_index: mem }
}

pub fn gen_body(
    t: &mut Tape,
    s: &Shape,
    cfg: &GenCfg,
    self_idx: usize,
    ty: u32,
    uid: Option<i64>,
) -> (Vec<VT>, Vec<I<'static>>) {
    let (params, results) = s.sig(ty);
    let mut e = Emitter {
        t,
        s,
        cfg,
        p: cfg.profile,
        exec: cfg.kind == Kind::Exec,
        edit: cfg.kind == Kind::Edit,
        self_idx,
        n_params: params.len(),
        locals: params.to_vec(),
        labels: vec![],
        results: results.to_vec(),
        out: vec![],
        fuel: 60,
        counters: BTreeSet::new(),
    };
    // declared locals
    let pool = e.local_pool();
    let nl = e.t.below(4);
    for _ in 0..nl {
        let ty = *e.t.pick(&pool);
        e.locals.push(ty);
    }
    if let Some(uid) = uid {
        e.out.push(I::I64Const(uid));
        e.out.push(I::Drop);
    }
    // the function body is a label carrying the results
    e.labels.push(Label { tys: results.to_vec(), is_loop: false, counter: None });
    let res = results.to_vec();
    e.block_body(&res, 0);
    e.labels.pop();
    e.out.push(I::End);
    let locals = e.locals[e.n_params..].to_vec();
    (locals, e.out)
}

struct Emitter<'a, 'b, 'c> {
    t: &'a mut Tape<'b>,
    s: &'c Shape,
    cfg: &'c GenCfg,
    p: Profile,
    exec: bool,
    edit: bool,
    self_idx: usize,
    n_params: usize,
    locals: Vec<VT>,
    labels: Vec<Label>,
    results: Vec<VT>,
    out: Vec<I<'static>>,
    fuel: i32,
    counters: BTreeSet<u32>,
}

impl<'a, 'b, 'c> Emitter<'a, 'b, 'c> {
    fn feat(&self, f: &'static str) {
        self.s.features.borrow_mut().insert(f);
    }
    fn push(&mut self, i: I<'static>) {
        self.fuel -= 1;
        self.out.push(i);
    }
    fn local_pool(&mut self) -> Vec<VT> {
        let mut v = vec![VT::I32, VT::I64, VT::F32, VT::F64];
        if self.exec {
            if self.p.funcrefs {
                v.push(VT::Func);
            }
            return v;
        }
        if self.p.simd {
            v.push(VT::V128);
        }
        if self.p.reftypes || self.p.funcrefs {
            v.push(VT::Func);
        }
        if self.p.reftypes {
            v.push(VT::Extern);
        }
        if self.p.exn && !self.cfg.avoid_exnref {
            v.push(VT::Exn);
        }
        if self.p.gc {
            v.push(VT::Any);
            v.push(VT::Eq);
            v.push(VT::I31);
            for (i, ty) in self.s.types.iter().enumerate() {
                if !matches!(ty.comp, GComposite::Func { .. }) && v.len() < 14 {
                    v.push(VT::RefNull(i as u32));
                }
            }
        }
        v
    }
    fn new_local(&mut self, ty: VT) -> u32 {
        self.locals.push(ty);
        (self.locals.len() - 1) as u32
    }
    fn local_of(&mut self, ty: VT) -> Option<u32> {
        let c: Vec<u32> = self
            .locals
            .iter()
            .enumerate()
            .filter(|(i, t)| **t == ty && !self.counters.contains(&(*i as u32)))
            .map(|(i, _)| i as u32)
            .collect();
        if c.is_empty() {
            None
        } else {
            Some(*self.t.pick(&c))
        }
    }
    fn global_of(&mut self, ty: VT, need_mut: bool) -> Option<u32> {
        let c: Vec<u32> = self
            .s
            .globals
            .iter()
            .enumerate()
            .filter(|(_, g)| g.ty == ty && (!need_mut || g.mutable))
            .map(|(i, _)| i as u32)
            .collect();
        if c.is_empty() {
            None
        } else {
            Some(*self.t.pick(&c))
        }
    }
    fn pick_mem(&mut self) -> Option<(u32, MemT)> {
        if self.s.mems.is_empty() {
            return None;
        }
        let i = self.t.below(self.s.mems.len());
        Some((i as u32, self.s.mems[i]))
    }
    /// push an address for memory `mt` (small, in bounds of the first page)
    fn addr(&mut self, mt: MemT, d: u32) {
        if mt.is64 {
            if d < self.cfg.max_depth && self.t.chance(1, 4) {
                self.expr(VT::I64, d + 1);
                self.push(I::I64Const(0xff));
                self.push(I::I64And);
            } else {
                let v = self.t.below(200) as i64;
                self.push(I::I64Const(v));
            }
        } else if d < self.cfg.max_depth && self.t.chance(1, 3) {
            self.expr(VT::I32, d + 1);
            self.push(I::I32Const(0xff));
            self.push(I::I32And);
        } else {
            let v = self.t.below(200) as i32;
            self.push(I::I32Const(v));
        }
    }
    fn blockty_for(&mut self, params: &[VT], results: &[VT]) -> Option<BlockType> {
        if params.is_empty() && results.is_empty() {
            return Some(BlockType::Empty);
        }
        if params.is_empty() && results.len() == 1 {
            return Some(BlockType::Result(results[0].val()));
        }
        // need a function type index with exactly this signature
        for (i, ty) in self.s.types.iter().enumerate() {
            if let GComposite::Func { params: p, results: r } = &ty.comp {
                if p.as_slice() == params && r.as_slice() == results {
                    self.feat("multivalue");
                    return Some(BlockType::FunctionType(i as u32));
                }
            }
        }
        None
    }

    // ------------------------------------------------------------------ expressions
    fn konst(&mut self, ty: VT) {
        match ty {
            VT::I32 => {
                let v = self.t.i32v();
                self.push(I::I32Const(v))
            }
            VT::I64 => {
                let v = self.t.i64v();
                self.push(I::I64Const(v))
            }
            VT::F32 => {
                let v = self.t.f32bits();
                self.push(I::F32Const(ieee32(v)))
            }
            VT::F64 => {
                let v = self.t.f64bits();
                self.push(I::F64Const(ieee64(v)))
            }
            VT::V128 => {
                let v = self.t.u128();
                self.feat("simd");
                self.push(I::V128Const(v as i128))
            }
            VT::Func => {
                if self.s.ref_limit > 0 && self.t.chance(1, 2) {
                    let f = self.pick_ref_func();
                    self.push(I::RefFunc(f));
                } else {
                    self.push(I::RefNull(ty.heap().unwrap()));
                }
            }
            VT::I31 | VT::Eq | VT::Any if self.t.chance(1, 2) => {
                let v = self.t.i32v();
                self.push(I::I32Const(v));
                self.push(I::RefI31);
            }
            VT::RefNN(tix) => self.alloc(tix),
            VT::RefNull(tix) => {
                if self.t.chance(1, 2) && self.can_alloc(tix) {
                    self.alloc(tix)
                } else {
                    self.push(I::RefNull(ty.heap().unwrap()))
                }
            }
            VT::FuncNN => {
                let f = self.pick_ref_func();
                self.push(I::RefFunc(f));
            }
            _ => self.push(I::RefNull(ty.heap().unwrap())),
        }
    }
    fn pick_ref_func(&mut self) -> u32 {
        let hi = self.s.ref_limit.max(1) - 1;
        let lo = if self.s.host_log { 1.min(hi) } else { 0 };
        let f = self.t.range(lo, hi) as u32;
        self.s.declared.borrow_mut().insert(f);
        self.feat("reftypes");
        f
    }
    fn can_alloc(&self, tix: u32) -> bool {
        match &self.s.types[tix as usize].comp {
            GComposite::Struct { fields } => fields.iter().all(|(s, _)| s.defaultable()),
            GComposite::Array { elem, .. } => elem.defaultable(),
            _ => false,
        }
    }
    fn alloc(&mut self, tix: u32) {
        self.feat("gc");
        match self.s.types[tix as usize].comp.clone() {
            GComposite::Struct { fields } => {
                if self.t.chance(1, 2) && fields.len() <= 3 && self.fuel > 10 {
                    for (st, _) in &fields {
                        self.konst(st.unpacked());
                    }
                    self.push(I::StructNew(tix));
                } else {
                    self.push(I::StructNewDefault(tix));
                }
            }
            GComposite::Array { elem, .. } => match self.t.below(3) {
                0 => {
                    self.konst(elem.unpacked());
                    self.push(I::I32Const(2));
                    self.push(I::ArrayNew(tix));
                }
                1 => {
                    self.konst(elem.unpacked());
                    self.konst(elem.unpacked());
                    self.push(I::ArrayNewFixed { array_type_index: tix, array_size: 2 });
                }
                _ => {
                    self.push(I::I32Const(3));
                    self.push(I::ArrayNewDefault(tix));
                }
            },
            _ => unreachable!(),
        }
    }

    fn expr(&mut self, ty: VT, d: u32) {
        if d >= self.cfg.max_depth || self.fuel <= 0 {
            return self.leaf(ty);
        }
        match ty {
            VT::I32 => self.expr_i32(d),
            VT::I64 => self.expr_i64(d),
            VT::F32 => self.expr_f32(d),
            VT::F64 => self.expr_f64(d),
            VT::V128 => self.expr_v128(d),
            _ => self.expr_ref(ty, d),
        }
    }
    fn leaf(&mut self, ty: VT) {
        match self.t.below(3) {
            0 => {
                if let Some(l) = self.local_of(ty) {
                    return self.push(I::LocalGet(l));
                }
            }
            1 => {
                if let Some(g) = self.global_of(ty, false) {
                    // shared-everything-threads: global.atomic.get on an (unshared) i32 / i64
                    // global; chosen by position, not by a tape read
                    if !self.exec && self.p.threads && matches!(ty, VT::I32 | VT::I64) && (g as usize + self.out.len()) % 3 == 0 {
                        return self.push(I::GlobalAtomicGet { ordering: we::Ordering::SeqCst, global_index: g });
                    }
                    return self.push(I::GlobalGet(g));
                }
            }
            _ => {}
        }
        self.konst(ty)
    }
    /// generic value producers that work for any type: call, block, if, select, local.tee
    fn generic(&mut self, ty: VT, d: u32) -> bool {
        match self.t.below(6) {
            0 => {
                // call a function returning exactly [ty]
                let c: Vec<u32> = self
                    .callable()
                    .into_iter()
                    .filter(|&f| {
                        let (_, r) = self.s.sig(self.s.func_tys[f as usize]);
                        r.len() == 1 && r[0] == ty
                    })
                    .collect();
                if c.is_empty() {
                    return false;
                }
                let f = *self.t.pick(&c);
                let (params, _) = self.s.sig(self.s.func_tys[f as usize]);
                let params = params.to_vec();
                for p in params {
                    self.expr(p, d + 1);
                }
                self.push(I::Call(f));
                true
            }
            1 => {
                let Some(bt) = self.blockty_for(&[], &[ty]) else { return false };
                self.push(I::Block(bt));
                self.labels.push(Label { tys: vec![ty], is_loop: false, counter: None });
                self.block_body(&[ty], d + 1);
                self.labels.pop();
                self.push(I::End);
                true
            }
            2 => {
                let Some(bt) = self.blockty_for(&[], &[ty]) else { return false };
                self.expr(VT::I32, d + 1);
                self.push(I::If(bt));
                self.labels.push(Label { tys: vec![ty], is_loop: false, counter: None });
                self.block_body(&[ty], d + 1);
                self.push(I::Else);
                self.block_body(&[ty], d + 1);
                self.labels.pop();
                self.push(I::End);
                true
            }
            3 => {
                self.expr(ty, d + 1);
                self.expr(ty, d + 1);
                self.expr(VT::I32, d + 1);
                if ty.is_num() || ty == VT::V128 {
                    if self.t.chance(1, 4) && self.p.reftypes {
                        self.push(I::TypedSelect(ty.val()));
                    } else {
                        self.push(I::Select);
                    }
                } else {
                    self.feat("reftypes");
                    self.push(I::TypedSelect(ty.val()));
                }
                true
            }
            4 => {
                if let Some(l) = self.local_of(ty) {
                    self.expr(ty, d + 1);
                    self.push(I::LocalTee(l));
                    true
                } else {
                    false
                }
            }
            _ => false,
        }
    }
    fn callable(&self) -> Vec<u32> {
        let n = self.s.ref_limit.min(self.s.func_tys.len());
        if self.exec {
            let lo = if self.s.host_log { 1 } else { 0 };
            (lo..self.self_idx.min(n)).map(|x| x as u32).collect()
        } else {
            (0..n).map(|x| x as u32).collect()
        }
    }

    fn load(&mut self, d: u32, ins: fn(MemArg) -> I<'static>, max_align: u32) -> bool {
        let Some((mi, mt)) = self.pick_mem() else { return false };
        self.addr(mt, d);
        let a = self.t.below(max_align as usize + 1) as u32;
        let off = self.mem_offset(mt);
        self.push(ins(memarg(off, a, mi)));
        true
    }
    fn mem_offset(&mut self, mt: MemT) -> u64 {
        if self.exec {
            self.t.below(64) as u64
        } else if mt.is64 && self.t.chance(1, 8) {
            (1u64 << 33) + self.t.below(100) as u64
        } else {
            self.t.below(300) as u64
        }
    }
    fn atomic_load(&mut self, d: u32, ins: fn(MemArg) -> I<'static>, align: u32) -> bool {
        let Some((mi, mt)) = self.pick_mem() else { return false };
        self.feat("threads");
        self.addr(mt, d);
        let off = self.t.below(16) as u64 * 8;
        self.push(ins(memarg(off, align, mi)));
        true
    }

    fn expr_i32(&mut self, d: u32) {
        let n = 24;
        match self.t.below(n) {
            0 | 1 => self.leaf(VT::I32),
            2 | 3 | 4 => {
                self.expr(VT::I32, d + 1);
                self.expr(VT::I32, d + 1);
                let ops: &[I<'static>] = &[
                    I::I32Add, I::I32Sub, I::I32Mul, I::I32And, I::I32Or, I::I32Xor, I::I32Shl, I::I32ShrS, I::I32ShrU,
                    I::I32Rotl, I::I32Rotr, I::I32Eq, I::I32Ne, I::I32LtS, I::I32LtU, I::I32GtS, I::I32GtU, I::I32LeS,
                    I::I32LeU, I::I32GeS, I::I32GeU, I::I32DivS, I::I32DivU, I::I32RemS, I::I32RemU,
                ];
                let op = self.t.pick(ops).clone();
                self.push(op);
            }
            5 => {
                self.expr(VT::I32, d + 1);
                let mut ops: Vec<I<'static>> = vec![I::I32Eqz, I::I32Clz, I::I32Ctz, I::I32Popcnt];
                if self.p.signext {
                    ops.push(I::I32Extend8S);
                    ops.push(I::I32Extend16S);
                }
                let op = self.t.pick(&ops).clone();
                if matches!(op, I::I32Extend8S | I::I32Extend16S) {
                    self.feat("signext");
                }
                self.push(op);
            }
            6 => {
                self.expr(VT::I64, d + 1);
                let op = self.t.pick(&[I::I32WrapI64, I::I64Eqz]).clone();
                self.push(op);
            }
            7 => {
                self.expr(VT::I64, d + 1);
                self.expr(VT::I64, d + 1);
                let op = self.t.pick(&[I::I64Eq, I::I64Ne, I::I64LtS, I::I64LtU, I::I64GtS, I::I64GtU, I::I64LeS, I::I64LeU, I::I64GeS, I::I64GeU]).clone();
                self.push(op);
            }
            8 => {
                self.expr(VT::F32, d + 1);
                self.expr(VT::F32, d + 1);
                let op = self.t.pick(&[I::F32Eq, I::F32Ne, I::F32Lt, I::F32Gt, I::F32Le, I::F32Ge]).clone();
                self.push(op);
            }
            9 => {
                self.expr(VT::F64, d + 1);
                self.expr(VT::F64, d + 1);
                let op = self.t.pick(&[I::F64Eq, I::F64Ne, I::F64Lt, I::F64Gt, I::F64Le, I::F64Ge]).clone();
                self.push(op);
            }
            10 => {
                // float -> int (trapping or saturating)
                let from32 = self.t.bool();
                self.expr(if from32 { VT::F32 } else { VT::F64 }, d + 1);
                let sat = self.p.satfloat && self.t.bool();
                if sat {
                    self.feat("satfloat");
                }
                let op = match (from32, sat, self.t.bool()) {
                    (true, false, true) => I::I32TruncF32S,
                    (true, false, false) => I::I32TruncF32U,
                    (false, false, true) => I::I32TruncF64S,
                    (false, false, false) => I::I32TruncF64U,
                    (true, true, true) => I::I32TruncSatF32S,
                    (true, true, false) => I::I32TruncSatF32U,
                    (false, true, true) => I::I32TruncSatF64S,
                    (false, true, false) => I::I32TruncSatF64U,
                };
                self.push(op);
            }
            11 => {
                self.expr(VT::F32, d + 1);
                self.push(I::I32ReinterpretF32);
            }
            12 | 13 => {
                let fs: &[(fn(MemArg) -> I<'static>, u32)] = &[
                    (|m| I::I32Load(m), 2),
                    (|m| I::I32Load8S(m), 0),
                    (|m| I::I32Load8U(m), 0),
                    (|m| I::I32Load16S(m), 1),
                    (|m| I::I32Load16U(m), 1),
                ];
                let (f, a) = *self.t.pick(fs);
                if !self.load(d, f, a) {
                    self.leaf(VT::I32)
                }
            }
            14 => {
                // memory.size / memory.grow
                if let Some((mi, mt)) = self.pick_mem() {
                    if mt.is64 {
                        if self.t.bool() {
                            self.push(I::MemorySize(mi));
                        } else {
                            self.push(I::I64Const(0));
                            self.push(I::MemoryGrow(mi));
                        }
                        self.push(I::I32WrapI64);
                    } else if self.t.bool() {
                        self.push(I::MemorySize(mi));
                    } else {
                        let v = self.t.below(2) as i32;
                        self.push(I::I32Const(v));
                        self.push(I::MemoryGrow(mi));
                    }
                } else {
                    self.leaf(VT::I32)
                }
            }
            15 if !self.exec && self.p.threads => {
                let fs: &[(fn(MemArg) -> I<'static>, u32)] = &[
                    (|m| I::I32AtomicLoad(m), 2),
                    (|m| I::I32AtomicLoad8U(m), 0),
                    (|m| I::I32AtomicLoad16U(m), 1),
                ];
                let (f, a) = *self.t.pick(fs);
                if !self.atomic_load(d, f, a) {
                    self.leaf(VT::I32)
                }
            }
            16 if !self.exec && self.p.threads => {
                // rmw / cmpxchg / wait / notify
                let Some((mi, mt)) = self.pick_mem() else { return self.leaf(VT::I32) };
                self.feat("threads");
                self.addr(mt, d);
                match self.t.below(5) {
                    0 => {
                        self.expr(VT::I32, d + 1);
                        let fs: &[fn(MemArg) -> I<'static>] = &[
                            |m| I::I32AtomicRmwAdd(m),
                            |m| I::I32AtomicRmwSub(m),
                            |m| I::I32AtomicRmwAnd(m),
                            |m| I::I32AtomicRmwOr(m),
                            |m| I::I32AtomicRmwXor(m),
                            |m| I::I32AtomicRmwXchg(m),
                        ];
                        let f = *self.t.pick(fs);
                        self.push(f(memarg(0, 2, mi)));
                    }
                    1 => {
                        self.expr(VT::I32, d + 1);
                        let fs: &[(fn(MemArg) -> I<'static>, u32)] = &[
                            (|m| I::I32AtomicRmw8AddU(m), 0),
                            (|m| I::I32AtomicRmw16AddU(m), 1),
                            (|m| I::I32AtomicRmw8XchgU(m), 0),
                            (|m| I::I32AtomicRmw16SubU(m), 1),
                        ];
                        let (f, a) = *self.t.pick(fs);
                        self.push(f(memarg(0, a, mi)));
                    }
                    2 => {
                        self.expr(VT::I32, d + 1);
                        self.expr(VT::I32, d + 1);
                        let fs: &[(fn(MemArg) -> I<'static>, u32)] = &[
                            (|m| I::I32AtomicRmwCmpxchg(m), 2),
                            (|m| I::I32AtomicRmw8CmpxchgU(m), 0),
                            (|m| I::I32AtomicRmw16CmpxchgU(m), 1),
                        ];
                        let (f, a) = *self.t.pick(fs);
                        self.push(f(memarg(0, a, mi)));
                    }
                    3 => {
                        self.expr(VT::I32, d + 1);
                        self.push(I::MemoryAtomicNotify(memarg(0, 2, mi)));
                    }
                    _ => {
                        if self.t.bool() {
                            self.expr(VT::I32, d + 1);
                            self.push(I::I64Const(0));
                            self.push(I::MemoryAtomicWait32(memarg(0, 2, mi)));
                        } else {
                            self.expr(VT::I64, d + 1);
                            self.push(I::I64Const(0));
                            self.push(I::MemoryAtomicWait64(memarg(0, 3, mi)));
                        }
                    }
                }
            }
            17 if !self.exec && self.p.simd => {
                self.feat("simd");
                self.expr(VT::V128, d + 1);
                let l = self.t.below(4) as u8;
                let op = match self.t.below(5) {
                    0 => I::I32x4ExtractLane(l),
                    1 => I::I8x16ExtractLaneS(l * 3),
                    2 => I::I16x8ExtractLaneU(l),
                    3 => I::V128AnyTrue,
                    _ => I::I8x16Bitmask,
                };
                self.push(op);
            }
            18 if !self.exec && (self.p.reftypes || self.p.gc || self.p.funcrefs) => {
                let rp = self.ref_pool();
                let ty = *self.t.pick(&rp);
                self.expr(ty, d + 1);
                self.push(I::RefIsNull);
                self.feat("reftypes");
            }
            19 if !self.exec && self.p.gc => {
                // ref.test / array.len / i31.get / struct.get / ref.eq
                self.feat("gc");
                match self.t.below(5) {
                    0 => {
                        self.expr(VT::Any, d + 1);
                        let hts = self.cast_targets();
                        let (nullable, ht) = *self.t.pick(&hts);
                        if nullable {
                            self.push(I::RefTestNullable(ht));
                        } else {
                            self.push(I::RefTestNonNull(ht));
                        }
                    }
                    1 => {
                        self.expr(VT::ArrayR, d + 1);
                        self.push(I::ArrayLen);
                    }
                    2 => {
                        self.expr(VT::I31, d + 1);
                        let op = if self.t.bool() { I::I31GetS } else { I::I31GetU };
                        self.push(op);
                    }
                    3 => {
                        self.expr(VT::Eq, d + 1);
                        self.expr(VT::Eq, d + 1);
                        self.push(I::RefEq);
                    }
                    _ => {
                        if !self.field_get(VT::I32, d) {
                            self.leaf(VT::I32)
                        }
                    }
                }
            }
            20 if !self.exec && self.p.reftypes => {
                // table.size / table.grow
                if self.s.tables.is_empty() {
                    return self.leaf(VT::I32);
                }
                let ti = self.t.below(self.s.tables.len()) as u32;
                self.feat("reftypes");
                if self.t.bool() {
                    self.push(I::TableSize(ti));
                } else {
                    let ety = self.s.tables[ti as usize];
                    self.expr(ety, d + 1);
                    self.push(I::I32Const(1));
                    self.push(I::TableGrow(ti));
                }
            }
            _ => {
                if !self.generic(VT::I32, d) {
                    self.leaf(VT::I32)
                }
            }
        }
    }

    fn ref_pool(&mut self) -> Vec<VT> {
        let mut v = vec![];
        if self.p.reftypes || self.p.funcrefs {
            v.push(VT::Func);
        }
        if self.p.reftypes {
            v.push(VT::Extern);
        }
        if self.p.gc {
            v.push(VT::Any);
            v.push(VT::Eq);
            v.push(VT::I31);
        }
        if v.is_empty() {
            v.push(VT::Func);
        }
        v
    }
    fn cast_targets(&self) -> Vec<(bool, we::HeapType)> {
        use we::AbstractHeapType as A;
        let abs = |ty| we::HeapType::Abstract { shared: false, ty };
        let mut v = vec![(true, abs(A::Eq)), (false, abs(A::I31)), (true, abs(A::Struct)), (false, abs(A::Array)), (true, abs(A::None))];
        for (i, ty) in self.s.types.iter().enumerate() {
            if !matches!(ty.comp, GComposite::Func { .. }) {
                v.push((i % 2 == 0, we::HeapType::Concrete(i as u32)));
            }
        }
        v
    }
    /// struct.get / array.get producing `ty`
    fn field_get(&mut self, ty: VT, d: u32) -> bool {
        let mut cands: Vec<(u32, Option<u32>, bool)> = vec![]; // (type, field, packed)
        for (i, t) in self.s.types.iter().enumerate() {
            match &t.comp {
                GComposite::Struct { fields } => {
                    for (fi, (st, _)) in fields.iter().enumerate() {
                        if st.unpacked() == ty {
                            cands.push((i as u32, Some(fi as u32), st.packed()));
                        }
                    }
                }
                GComposite::Array { elem, .. } => {
                    if elem.unpacked() == ty {
                        cands.push((i as u32, None, elem.packed()));
                    }
                }
                _ => {}
            }
        }
        if cands.is_empty() {
            return false;
        }
        let (tix, field, packed) = *self.t.pick(&cands);
        self.expr(VT::RefNull(tix), d + 1);
        match field {
            Some(f) => {
                let op = if packed {
                    if self.t.bool() {
                        I::StructGetS { struct_type_index: tix, field_index: f }
                    } else {
                        I::StructGetU { struct_type_index: tix, field_index: f }
                    }
                } else {
                    I::StructGet { struct_type_index: tix, field_index: f }
                };
                self.push(op);
            }
            None => {
                self.push(I::I32Const(0));
                let op = if packed {
                    if self.t.bool() {
                        I::ArrayGetS(tix)
                    } else {
                        I::ArrayGetU(tix)
                    }
                } else {
                    I::ArrayGet(tix)
                };
                self.push(op);
            }
        }
        true
    }

    fn expr_i64(&mut self, d: u32) {
        match self.t.below(14) {
            0 | 1 => self.leaf(VT::I64),
            2 | 3 => {
                self.expr(VT::I64, d + 1);
                self.expr(VT::I64, d + 1);
                let ops: &[I<'static>] = &[
                    I::I64Add, I::I64Sub, I::I64Mul, I::I64And, I::I64Or, I::I64Xor, I::I64Shl, I::I64ShrS, I::I64ShrU,
                    I::I64Rotl, I::I64Rotr, I::I64DivS, I::I64DivU, I::I64RemS, I::I64RemU,
                ];
                let op = self.t.pick(ops).clone();
                self.push(op);
            }
            4 => {
                self.expr(VT::I64, d + 1);
                let mut ops: Vec<I<'static>> = vec![I::I64Clz, I::I64Ctz, I::I64Popcnt];
                if self.p.signext {
                    ops.extend([I::I64Extend8S, I::I64Extend16S, I::I64Extend32S]);
                }
                let op = self.t.pick(&ops).clone();
                if matches!(op, I::I64Extend8S | I::I64Extend16S | I::I64Extend32S) {
                    self.feat("signext");
                }
                self.push(op);
            }
            5 => {
                self.expr(VT::I32, d + 1);
                let op = if self.t.bool() { I::I64ExtendI32S } else { I::I64ExtendI32U };
                self.push(op);
            }
            6 => {
                let from32 = self.t.bool();
                self.expr(if from32 { VT::F32 } else { VT::F64 }, d + 1);
                let sat = self.p.satfloat && self.t.bool();
                if sat {
                    self.feat("satfloat");
                }
                let op = match (from32, sat, self.t.bool()) {
                    (true, false, true) => I::I64TruncF32S,
                    (true, false, false) => I::I64TruncF32U,
                    (false, false, true) => I::I64TruncF64S,
                    (false, false, false) => I::I64TruncF64U,
                    (true, true, true) => I::I64TruncSatF32S,
                    (true, true, false) => I::I64TruncSatF32U,
                    (false, true, true) => I::I64TruncSatF64S,
                    (false, true, false) => I::I64TruncSatF64U,
                };
                self.push(op);
            }
            7 => {
                self.expr(VT::F64, d + 1);
                self.push(I::I64ReinterpretF64);
            }
            8 | 9 => {
                let fs: &[(fn(MemArg) -> I<'static>, u32)] = &[
                    (|m| I::I64Load(m), 3),
                    (|m| I::I64Load8S(m), 0),
                    (|m| I::I64Load8U(m), 0),
                    (|m| I::I64Load16S(m), 1),
                    (|m| I::I64Load16U(m), 1),
                    (|m| I::I64Load32S(m), 2),
                    (|m| I::I64Load32U(m), 2),
                ];
                let (f, a) = *self.t.pick(fs);
                if !self.load(d, f, a) {
                    self.leaf(VT::I64)
                }
            }
            10 if !self.exec && self.p.threads => {
                let Some((mi, mt)) = self.pick_mem() else { return self.leaf(VT::I64) };
                self.feat("threads");
                self.addr(mt, d);
                match self.t.below(4) {
                    0 => {
                        let fs: &[(fn(MemArg) -> I<'static>, u32)] = &[
                            (|m| I::I64AtomicLoad(m), 3),
                            (|m| I::I64AtomicLoad8U(m), 0),
                            (|m| I::I64AtomicLoad16U(m), 1),
                            (|m| I::I64AtomicLoad32U(m), 2),
                        ];
                        let (f, a) = *self.t.pick(fs);
                        self.push(f(memarg(0, a, mi)));
                    }
                    1 => {
                        self.expr(VT::I64, d + 1);
                        let fs: &[(fn(MemArg) -> I<'static>, u32)] = &[
                            (|m| I::I64AtomicRmwAdd(m), 3),
                            (|m| I::I64AtomicRmwSub(m), 3),
                            (|m| I::I64AtomicRmwAnd(m), 3),
                            (|m| I::I64AtomicRmwOr(m), 3),
                            (|m| I::I64AtomicRmwXor(m), 3),
                            (|m| I::I64AtomicRmwXchg(m), 3),
                            (|m| I::I64AtomicRmw8AddU(m), 0),
                            (|m| I::I64AtomicRmw16SubU(m), 1),
                            (|m| I::I64AtomicRmw32AndU(m), 2),
                            (|m| I::I64AtomicRmw32XchgU(m), 2),
                        ];
                        let (f, a) = *self.t.pick(fs);
                        self.push(f(memarg(0, a, mi)));
                    }
                    _ => {
                        self.expr(VT::I64, d + 1);
                        self.expr(VT::I64, d + 1);
                        let fs: &[(fn(MemArg) -> I<'static>, u32)] = &[
                            (|m| I::I64AtomicRmwCmpxchg(m), 3),
                            (|m| I::I64AtomicRmw8CmpxchgU(m), 0),
                            (|m| I::I64AtomicRmw16CmpxchgU(m), 1),
                            (|m| I::I64AtomicRmw32CmpxchgU(m), 2),
                        ];
                        let (f, a) = *self.t.pick(fs);
                        self.push(f(memarg(0, a, mi)));
                    }
                }
            }
            11 if !self.exec && self.p.simd => {
                self.feat("simd");
                self.expr(VT::V128, d + 1);
                let l = self.t.below(2) as u8;
                self.push(I::I64x2ExtractLane(l));
            }
            _ => {
                if !self.generic(VT::I64, d) {
                    self.leaf(VT::I64)
                }
            }
        }
    }

    fn expr_f32(&mut self, d: u32) {
        match self.t.below(10) {
            0 | 1 => self.leaf(VT::F32),
            2 | 3 => {
                self.expr(VT::F32, d + 1);
                self.expr(VT::F32, d + 1);
                let op = self.t.pick(&[I::F32Add, I::F32Sub, I::F32Mul, I::F32Div, I::F32Min, I::F32Max, I::F32Copysign]).clone();
                self.push(op);
            }
            4 => {
                self.expr(VT::F32, d + 1);
                let op = self.t.pick(&[I::F32Abs, I::F32Neg, I::F32Sqrt, I::F32Ceil, I::F32Floor, I::F32Trunc, I::F32Nearest]).clone();
                self.push(op);
            }
            5 => {
                let (src, op) = match self.t.below(6) {
                    0 => (VT::I32, I::F32ConvertI32S),
                    1 => (VT::I32, I::F32ConvertI32U),
                    2 => (VT::I64, I::F32ConvertI64S),
                    3 => (VT::I64, I::F32ConvertI64U),
                    4 => (VT::F64, I::F32DemoteF64),
                    _ => (VT::I32, I::F32ReinterpretI32),
                };
                self.expr(src, d + 1);
                self.push(op);
            }
            6 => {
                if !self.load(d, |m| I::F32Load(m), 2) {
                    self.leaf(VT::F32)
                }
            }
            7 if !self.exec && self.p.simd => {
                self.feat("simd");
                self.expr(VT::V128, d + 1);
                let l = self.t.below(4) as u8;
                self.push(I::F32x4ExtractLane(l));
            }
            _ => {
                if !self.generic(VT::F32, d) {
                    self.leaf(VT::F32)
                }
            }
        }
    }

    fn expr_f64(&mut self, d: u32) {
        match self.t.below(10) {
            0 | 1 => self.leaf(VT::F64),
            2 | 3 => {
                self.expr(VT::F64, d + 1);
                self.expr(VT::F64, d + 1);
                let op = self.t.pick(&[I::F64Add, I::F64Sub, I::F64Mul, I::F64Div, I::F64Min, I::F64Max, I::F64Copysign]).clone();
                self.push(op);
            }
            4 => {
                self.expr(VT::F64, d + 1);
                let op = self.t.pick(&[I::F64Abs, I::F64Neg, I::F64Sqrt, I::F64Ceil, I::F64Floor, I::F64Trunc, I::F64Nearest]).clone();
                self.push(op);
            }
            5 => {
                let (src, op) = match self.t.below(6) {
                    0 => (VT::I32, I::F64ConvertI32S),
                    1 => (VT::I32, I::F64ConvertI32U),
                    2 => (VT::I64, I::F64ConvertI64S),
                    3 => (VT::I64, I::F64ConvertI64U),
                    4 => (VT::F32, I::F64PromoteF32),
                    _ => (VT::I64, I::F64ReinterpretI64),
                };
                self.expr(src, d + 1);
                self.push(op);
            }
            6 => {
                if !self.load(d, |m| I::F64Load(m), 3) {
                    self.leaf(VT::F64)
                }
            }
            7 if !self.exec && self.p.simd => {
                self.feat("simd");
                self.expr(VT::V128, d + 1);
                let l = self.t.below(2) as u8;
                self.push(I::F64x2ExtractLane(l));
            }
            _ => {
                if !self.generic(VT::F64, d) {
                    self.leaf(VT::F64)
                }
            }
        }
    }

    fn expr_v128(&mut self, d: u32) {
        self.feat("simd");
        match self.t.below(12) {
            0 | 1 => self.leaf(VT::V128),
            2 => {
                self.expr(VT::V128, d + 1);
                self.expr(VT::V128, d + 1);
                let op = self
                    .t
                    .pick(&[I::I32x4Add, I::I8x16Sub, I::I16x8Mul, I::F32x4Add, I::F64x2Mul, I::V128And, I::V128Xor, I::I8x16Eq, I::I32x4MinS, I::I8x16Swizzle])
                    .clone();
                self.push(op);
            }
            3 => {
                self.expr(VT::V128, d + 1);
                let op = self.t.pick(&[I::V128Not, I::I32x4Neg, I::F32x4Sqrt, I::I8x16Abs, I::I16x8ExtendLowI8x16S, I::F32x4ConvertI32x4S]).clone();
                self.push(op);
            }
            4 => {
                let (src, op) = match self.t.below(4) {
                    0 => (VT::I32, I::I32x4Splat),
                    1 => (VT::I64, I::I64x2Splat),
                    2 => (VT::F32, I::F32x4Splat),
                    _ => (VT::I32, I::I8x16Splat),
                };
                self.expr(src, d + 1);
                self.push(op);
            }
            5 => {
                self.expr(VT::V128, d + 1);
                self.expr(VT::I32, d + 1);
                let l = self.t.below(4) as u8;
                let op = if self.t.bool() { I::I32x4ReplaceLane(l) } else { I::I8x16ReplaceLane(l * 4) };
                self.push(op);
            }
            6 => {
                self.expr(VT::V128, d + 1);
                self.expr(VT::V128, d + 1);
                let mut lanes = [0u8; 16];
                for l in lanes.iter_mut() {
                    *l = self.t.below(32) as u8;
                }
                self.push(I::I8x16Shuffle(lanes));
            }
            7 | 8 => {
                // loads
                let fs: &[(fn(MemArg) -> I<'static>, u32)] = &[
                    (|m| I::V128Load(m), 4),
                    (|m| I::V128Load8x8S(m), 3),
                    (|m| I::V128Load8x8U(m), 3),
                    (|m| I::V128Load16x4S(m), 3),
                    (|m| I::V128Load16x4U(m), 3),
                    (|m| I::V128Load32x2S(m), 3),
                    (|m| I::V128Load32x2U(m), 3),
                    (|m| I::V128Load8Splat(m), 0),
                    (|m| I::V128Load16Splat(m), 1),
                    (|m| I::V128Load32Splat(m), 2),
                    (|m| I::V128Load64Splat(m), 3),
                    (|m| I::V128Load32Zero(m), 2),
                    (|m| I::V128Load64Zero(m), 3),
                ];
                let (f, a) = *self.t.pick(fs);
                if !self.load(d, f, a) {
                    self.leaf(VT::V128)
                }
            }
            9 => {
                // load lane: addr, v128
                let Some((mi, mt)) = self.pick_mem() else { return self.leaf(VT::V128) };
                self.addr(mt, d);
                self.expr(VT::V128, d + 1);
                let off = self.mem_offset(mt);
                let op = match self.t.below(4) {
                    0 => I::V128Load8Lane { memarg: memarg(off, 0, mi), lane: self.t.below(16) as u8 },
                    1 => I::V128Load16Lane { memarg: memarg(off, 1, mi), lane: self.t.below(8) as u8 },
                    2 => I::V128Load32Lane { memarg: memarg(off, 2, mi), lane: self.t.below(4) as u8 },
                    _ => I::V128Load64Lane { memarg: memarg(off, 3, mi), lane: self.t.below(2) as u8 },
                };
                self.push(op);
            }
            10 => {
                self.expr(VT::V128, d + 1);
                self.expr(VT::V128, d + 1);
                self.expr(VT::V128, d + 1);
                self.push(I::V128Bitselect);
            }
            _ => {
                if !self.generic(VT::V128, d) {
                    self.leaf(VT::V128)
                }
            }
        }
    }

    fn expr_ref(&mut self, ty: VT, d: u32) {
        match self.t.below(8) {
            0 | 1 | 2 => self.leaf(ty),
            3 if ty == VT::Func || ty == VT::Extern => {
                // table.get
                let c: Vec<u32> = self.s.tables.iter().enumerate().filter(|(_, e)| **e == ty).map(|(i, _)| i as u32).collect();
                if c.is_empty() || self.exec || !self.p.reftypes {
                    return self.leaf(ty);
                }
                let ti = *self.t.pick(&c);
                self.feat("reftypes");
                self.push(I::I32Const(0));
                self.push(I::TableGet(ti));
            }
            4 if self.p.gc && matches!(ty, VT::Any | VT::Eq | VT::StructR | VT::ArrayR) => {
                // upcast from a concrete allocation
                let want_struct = ty != VT::ArrayR;
                let c: Vec<u32> = self
                    .s
                    .types
                    .iter()
                    .enumerate()
                    .filter(|(i, t)| {
                        (match t.comp {
                            GComposite::Struct { .. } => want_struct,
                            GComposite::Array { .. } => ty != VT::StructR,
                            _ => false,
                        }) && self.can_alloc(*i as u32)
                    })
                    .map(|(i, _)| i as u32)
                    .collect();
                if c.is_empty() {
                    return self.leaf(ty);
                }
                let tix = *self.t.pick(&c);
                self.alloc(tix);
            }
            5 if self.p.gc && matches!(ty, VT::Eq | VT::I31 | VT::StructR | VT::ArrayR | VT::RefNull(_)) => {
                // ref.cast from anyref (may trap at run time; static only)
                self.feat("gc");
                self.expr(VT::Any, d + 1);
                self.push(I::RefCastNullable(ty.heap().unwrap()));
            }
            6 if self.p.gc && matches!(ty, VT::Any) && self.p.reftypes => {
                self.feat("gc");
                self.expr(VT::Extern, d + 1);
                self.push(I::AnyConvertExtern);
            }
            6 if self.p.gc && matches!(ty, VT::Extern) => {
                self.feat("gc");
                self.expr(VT::Any, d + 1);
                self.push(I::ExternConvertAny);
            }
            _ => {
                if !self.p.reftypes && !self.p.gc && !self.p.funcrefs {
                    return self.leaf(ty);
                }
                if !ty.defaultable() || !self.generic(ty, d) {
                    self.leaf(ty)
                }
            }
        }
    }

    // ------------------------------------------------------------------ statements
    /// emits statements and then the results, unless a terminator was emitted
    fn block_body(&mut self, results: &[VT], d: u32) {
        let n = if d > self.cfg.max_depth || self.fuel <= 0 { 0 } else { self.t.below(self.cfg.max_stmts + 1) };
        for _ in 0..n {
            if self.fuel <= 0 {
                break;
            }
            if self.stmt(d) {
                return; // rest of the block is unreachable: emit nothing, `end` is valid
            }
        }
        for r in results.to_vec() {
            self.expr(r, d + 1);
        }
    }

    /// push operands for a branch to label `l` (relative depth)
    fn branch_operands(&mut self, l: usize, d: u32) {
        let tys = self.labels[self.labels.len() - 1 - l].tys.clone();
        for ty in tys {
            self.expr(ty, d + 1);
        }
    }

    /// labels a forward branch may target: in exec mode never a loop label (back-edges
    /// are only taken through the guarded continue pattern)
    fn fwd_labels(&self) -> Vec<usize> {
        (0..self.labels.len()).filter(|&l| !self.exec || !self.labels[self.labels.len() - 1 - l].is_loop).collect()
    }

    fn stmt(&mut self, d: u32) -> bool {
        let choice = if self.edit && self.t.chance(1, 3) {
            // edit bases want dense reference sites
            *self.t.pick(&[2usize, 4, 5, 6, 12, 13, 18])
        } else {
            self.t.below(34)
        };
        match choice {
            0 => {
                self.push(I::Nop);
                false
            }
            1 | 2 => {
                // drop(expr)
                let pool = self.local_pool();
                let ty = *self.t.pick(&pool);
                self.expr(ty, d + 1);
                self.push(I::Drop);
                false
            }
            3 | 4 => {
                // local.set
                let pool = self.local_pool();
                let ty = *self.t.pick(&pool);
                if let Some(l) = self.local_of(ty) {
                    self.expr(ty, d + 1);
                    self.push(I::LocalSet(l));
                } else {
                    self.push(I::Nop);
                }
                false
            }
            5 => {
                // global.set
                let c: Vec<u32> = self.s.globals.iter().enumerate().filter(|(_, g)| g.mutable).map(|(i, _)| i as u32).collect();
                if c.is_empty() {
                    self.push(I::Nop);
                    return false;
                }
                let g = *self.t.pick(&c);
                let ty = self.s.globals[g as usize].ty;
                self.expr(ty, d + 1);
                if !self.exec && self.p.threads && matches!(ty, VT::I32 | VT::I64) {
                    let o = we::Ordering::SeqCst;
                    match (g as usize + self.out.len()) % 3 {
                        0 => {
                            self.push(I::GlobalAtomicSet { ordering: o, global_index: g });
                            return false;
                        }
                        1 => {
                            let i = match (self.out.len() / 3) % 6 {
                                0 => I::GlobalAtomicRmwAdd { ordering: o, global_index: g },
                                1 => I::GlobalAtomicRmwSub { ordering: o, global_index: g },
                                2 => I::GlobalAtomicRmwAnd { ordering: o, global_index: g },
                                3 => I::GlobalAtomicRmwOr { ordering: o, global_index: g },
                                4 => I::GlobalAtomicRmwXor { ordering: o, global_index: g },
                                _ => I::GlobalAtomicRmwXchg { ordering: o, global_index: g },
                            };
                            self.push(i);
                            self.push(I::Drop);
                            return false;
                        }
                        _ => {}
                    }
                }
                self.push(I::GlobalSet(g));
                false
            }
            6 | 7 => self.store(d),
            8 | 9 => {
                // block
                self.structured(0, d)
            }
            10 => self.structured(1, d),
            11 => self.structured(2, d),
            12 | 13 => {
                // call, dropping results
                let c = self.callable();
                if c.is_empty() {
                    self.push(I::Nop);
                    return false;
                }
                let f = *self.t.pick(&c);
                let (params, results) = self.s.sig(self.s.func_tys[f as usize]);
                let (params, results) = (params.to_vec(), results.to_vec());
                for p in params {
                    self.expr(p, d + 1);
                }
                self.push(I::Call(f));
                for _ in results {
                    self.push(I::Drop);
                }
                false
            }
            14 => {
                // br
                let ls = self.fwd_labels();
                if ls.is_empty() {
                    return false;
                }
                let l = *self.t.pick(&ls);
                self.branch_operands(l, d);
                self.push(I::Br(l as u32));
                true
            }
            15 | 16 => {
                // br_if (operands stay on the stack when not taken => drop them)
                let ls = self.fwd_labels();
                if ls.is_empty() {
                    return false;
                }
                let l = *self.t.pick(&ls);
                let tys = self.labels[self.labels.len() - 1 - l].tys.clone();
                self.branch_operands(l, d);
                self.expr(VT::I32, d + 1);
                self.push(I::BrIf(l as u32));
                for _ in tys {
                    self.push(I::Drop);
                }
                false
            }
            17 => {
                // br_table over labels with identical operand types
                let ls = self.fwd_labels();
                if ls.is_empty() {
                    return false;
                }
                let dflt = *self.t.pick(&ls);
                let want = self.labels[self.labels.len() - 1 - dflt].tys.clone();
                let same: Vec<usize> = ls.iter().copied().filter(|&l| self.labels[self.labels.len() - 1 - l].tys == want).collect();
                let n = self.t.below(4);
                let targets: Vec<u32> = (0..n).map(|_| *self.t.pick(&same) as u32).collect();
                self.branch_operands(dflt, d);
                self.expr(VT::I32, d + 1);
                self.push(I::BrTable(targets.into(), dflt as u32));
                true
            }
            18 => {
                // return
                if self.t.chance(1, 2) {
                    for r in self.results.clone() {
                        self.expr(r, d + 1);
                    }
                    self.push(I::Return);
                    true
                } else {
                    false
                }
            }
            19 => {
                // guarded unreachable
                self.expr(VT::I32, d + 1);
                self.push(I::If(BlockType::Empty));
                self.push(I::Unreachable);
                self.push(I::End);
                false
            }
            20 => self.call_indirect(d),
            21 if self.p.tail => self.tail_call(d),
            22 if self.p.bulk => self.bulk(d),
            23 if self.p.exn => self.exceptions(d),
            24 if !self.exec && self.p.threads => {
                self.feat("threads");
                if self.t.chance(1, 3) {
                    self.push(I::AtomicFence);
                    false
                } else {
                    self.atomic_store(d)
                }
            }
            25 if !self.exec && self.p.simd => self.simd_store(d),
            26 if !self.exec && self.p.gc => self.gc_stmt(d),
            27 if self.p.funcrefs => self.funcref_stmt(d),
            28 if !self.exec && self.p.reftypes => self.table_stmt(d),
            29 if self.exec => {
                // guarded continue of an enclosing loop
                self.guarded_continue()
            }
            30 if self.p.multivalue => self.multivalue_block(d),
            _ => {
                let pool = self.local_pool();
                let ty = *self.t.pick(&pool);
                self.expr(ty, d + 1);
                self.push(I::Drop);
                false
            }
        }
    }

    fn guarded_continue(&mut self) -> bool {
        let ls: Vec<usize> = (0..self.labels.len()).filter(|&l| self.labels[self.labels.len() - 1 - l].counter.is_some()).collect();
        if ls.is_empty() {
            return false;
        }
        let l = *self.t.pick(&ls);
        let c = self.labels[self.labels.len() - 1 - l].counter.unwrap();
        self.push(I::LocalGet(c));
        self.push(I::I32Const(1));
        self.push(I::I32Sub);
        self.push(I::LocalTee(c));
        self.push(I::I32Const(0));
        self.push(I::I32GtS);
        self.push(I::BrIf(l as u32));
        false
    }

    /// kind: 0 block, 1 loop, 2 if/else
    fn structured(&mut self, kind: u32, d: u32) -> bool {
        if d >= self.cfg.max_depth {
            self.push(I::Nop);
            return false;
        }
        // result types: none, or one value that is dropped afterwards
        let pool = self.local_pool();
        let res: Vec<VT> = if self.t.chance(1, 3) { vec![*self.t.pick(&pool)] } else { vec![] };
        let Some(bt) = self.blockty_for(&[], &res) else { return false };
        match kind {
            0 => {
                self.push(I::Block(bt));
                self.labels.push(Label { tys: res.clone(), is_loop: false, counter: None });
                self.block_body(&res, d + 1);
                self.labels.pop();
                self.push(I::End);
            }
            1 => {
                let counter = if self.exec {
                    let c = self.new_local(VT::I32);
                    self.counters.insert(c);
                    let k = self.t.below(4) as i32;
                    self.push(I::I32Const(k));
                    self.push(I::LocalSet(c));
                    Some(c)
                } else {
                    None
                };
                self.push(I::Loop(bt));
                self.labels.push(Label { tys: vec![], is_loop: true, counter });
                // body statements, then (exec) the guarded back-edge, then results
                let n = self.t.below(self.cfg.max_stmts + 1);
                let mut terminated = false;
                for _ in 0..n {
                    if self.fuel <= 0 {
                        break;
                    }
                    if self.stmt(d + 1) {
                        terminated = true;
                        break;
                    }
                }
                if !terminated {
                    if self.exec {
                        self.guarded_continue();
                    } else if self.t.chance(1, 2) {
                        self.expr(VT::I32, d + 1);
                        self.push(I::BrIf(0));
                    }
                    for r in res.clone() {
                        self.expr(r, d + 1);
                    }
                }
                self.labels.pop();
                self.push(I::End);
            }
            _ => {
                self.expr(VT::I32, d + 1);
                self.push(I::If(bt));
                self.labels.push(Label { tys: res.clone(), is_loop: false, counter: None });
                self.block_body(&res, d + 1);
                if !res.is_empty() || self.t.chance(2, 3) {
                    self.push(I::Else);
                    self.block_body(&res, d + 1);
                }
                self.labels.pop();
                self.push(I::End);
            }
        }
        for _ in &res {
            self.push(I::Drop);
        }
        false
    }

    fn multivalue_block(&mut self, d: u32) -> bool {
        // a block with parameters and several results, through a type index
        let cands: Vec<u32> = self
            .s
            .types
            .iter()
            .enumerate()
            .filter(|(_, t)| matches!(&t.comp, GComposite::Func { params, results } if params.len() + results.len() >= 2 && params.iter().chain(results.iter()).all(|v| v.defaultable())))
            .map(|(i, _)| i as u32)
            .collect();
        if cands.is_empty() || d >= self.cfg.max_depth {
            return false;
        }
        let tix = *self.t.pick(&cands);
        let (params, results) = self.s.sig(tix);
        let (params, results) = (params.to_vec(), results.to_vec());
        self.feat("multivalue");
        for p in &params {
            self.expr(*p, d + 1);
        }
        self.push(I::Block(BlockType::FunctionType(tix)));
        self.labels.push(Label { tys: results.clone(), is_loop: false, counter: None });
        for _ in &params {
            self.push(I::Drop);
        }
        self.block_body(&results, d + 1);
        self.labels.pop();
        self.push(I::End);
        for _ in &results {
            self.push(I::Drop);
        }
        false
    }

    fn store(&mut self, d: u32) -> bool {
        let Some((mi, mt)) = self.pick_mem() else {
            self.push(I::Nop);
            return false;
        };
        let fs: &[(VT, fn(MemArg) -> I<'static>, u32)] = &[
            (VT::I32, |m| I::I32Store(m), 2),
            (VT::I32, |m| I::I32Store8(m), 0),
            (VT::I32, |m| I::I32Store16(m), 1),
            (VT::I64, |m| I::I64Store(m), 3),
            (VT::I64, |m| I::I64Store8(m), 0),
            (VT::I64, |m| I::I64Store16(m), 1),
            (VT::I64, |m| I::I64Store32(m), 2),
            (VT::F32, |m| I::F32Store(m), 2),
            (VT::F64, |m| I::F64Store(m), 3),
        ];
        let (ty, f, a) = *self.t.pick(fs);
        self.addr(mt, d);
        self.expr(ty, d + 1);
        let al = self.t.below(a as usize + 1) as u32;
        let off = self.mem_offset(mt);
        self.push(f(memarg(off, al, mi)));
        false
    }
    fn atomic_store(&mut self, d: u32) -> bool {
        let Some((mi, mt)) = self.pick_mem() else { return false };
        let fs: &[(VT, fn(MemArg) -> I<'static>, u32)] = &[
            (VT::I32, |m| I::I32AtomicStore(m), 2),
            (VT::I32, |m| I::I32AtomicStore8(m), 0),
            (VT::I32, |m| I::I32AtomicStore16(m), 1),
            (VT::I64, |m| I::I64AtomicStore(m), 3),
            (VT::I64, |m| I::I64AtomicStore8(m), 0),
            (VT::I64, |m| I::I64AtomicStore16(m), 1),
            (VT::I64, |m| I::I64AtomicStore32(m), 2),
        ];
        let (ty, f, a) = *self.t.pick(fs);
        self.addr(mt, d);
        self.expr(ty, d + 1);
        self.push(f(memarg(0, a, mi)));
        false
    }
    fn simd_store(&mut self, d: u32) -> bool {
        let Some((mi, mt)) = self.pick_mem() else { return false };
        self.feat("simd");
        self.addr(mt, d);
        self.expr(VT::V128, d + 1);
        let off = self.mem_offset(mt);
        let op = match self.t.below(5) {
            0 => I::V128Store(memarg(off, self.t.below(5) as u32, mi)),
            1 => I::V128Store8Lane { memarg: memarg(off, 0, mi), lane: self.t.below(16) as u8 },
            2 => I::V128Store16Lane { memarg: memarg(off, 1, mi), lane: self.t.below(8) as u8 },
            3 => I::V128Store32Lane { memarg: memarg(off, 2, mi), lane: self.t.below(4) as u8 },
            _ => I::V128Store64Lane { memarg: memarg(off, 3, mi), lane: self.t.below(2) as u8 },
        };
        self.push(op);
        false
    }

    fn call_indirect(&mut self, d: u32) -> bool {
        let c: Vec<u32> = self.s.tables.iter().enumerate().filter(|(_, e)| **e == VT::Func).map(|(i, _)| i as u32).collect();
        if c.is_empty() {
            return false;
        }
        if self.exec && self.self_idx < self.s.leaf_hi {
            return false; // leaf tier never calls indirectly
        }
        let ti = *self.t.pick(&c);
        let ftys: Vec<u32> = self.s.types.iter().enumerate().filter(|(_, t)| matches!(t.comp, GComposite::Func { .. })).map(|(i, _)| i as u32).collect();
        let ty = *self.t.pick(&ftys);
        let (params, results) = self.s.sig(ty);
        let (params, results) = (params.to_vec(), results.to_vec());
        if !params.iter().all(|p| p.defaultable()) {
            return false;
        }
        for p in params {
            self.expr(p, d + 1);
        }
        let idx = self.t.below(6) as i32;
        self.push(I::I32Const(idx));
        self.push(I::CallIndirect { type_index: ty, table_index: ti });
        for _ in results {
            self.push(I::Drop);
        }
        false
    }

    fn tail_call(&mut self, d: u32) -> bool {
        // callee results must equal this function's results
        let c: Vec<u32> = self
            .callable()
            .into_iter()
            .filter(|&f| {
                let (_, r) = self.s.sig(self.s.func_tys[f as usize]);
                r == self.results.as_slice()
            })
            .collect();
        if c.is_empty() || !self.t.chance(1, 2) {
            return false;
        }
        self.feat("tail");
        let f = *self.t.pick(&c);
        let (params, _) = self.s.sig(self.s.func_tys[f as usize]);
        let params = params.to_vec();
        for p in params {
            self.expr(p, d + 1);
        }
        if !self.exec && self.t.chance(1, 4) {
            let tables: Vec<u32> = self.s.tables.iter().enumerate().filter(|(_, e)| **e == VT::Func).map(|(i, _)| i as u32).collect();
            if let Some(&ti) = tables.first() {
                self.push(I::I32Const(0));
                self.push(I::ReturnCallIndirect { type_index: self.s.func_tys[f as usize], table_index: ti });
                return true;
            }
        }
        self.push(I::ReturnCall(f));
        true
    }

    fn bulk(&mut self, d: u32) -> bool {
        self.feat("bulk");
        match self.t.below(5) {
            0 => {
                let Some((mi, mt)) = self.pick_mem() else { return false };
                self.addr(mt, d);
                self.expr(VT::I32, d + 1);
                if mt.is64 {
                    self.push(I::I64Const(3));
                } else {
                    self.push(I::I32Const(3));
                }
                self.push(I::MemoryFill(mi));
            }
            1 => {
                let Some((a, ma)) = self.pick_mem() else { return false };
                let Some((b, mb)) = self.pick_mem() else { return false };
                self.addr(ma, d);
                self.addr(mb, d);
                // length has the smaller index type of the two
                if ma.is64 && mb.is64 {
                    self.push(I::I64Const(2));
                } else {
                    self.push(I::I32Const(2));
                }
                self.push(I::MemoryCopy { src_mem: b, dst_mem: a });
            }
            2 => {
                if self.s.passive_datas.is_empty() {
                    return false;
                }
                let Some((mi, mt)) = self.pick_mem() else { return false };
                let di = *self.t.pick(&self.s.passive_datas);
                self.addr(mt, d);
                self.push(I::I32Const(0));
                self.push(I::I32Const(0));
                self.push(I::MemoryInit { mem: mi, data_index: di });
            }
            3 => {
                if self.s.n_datas == 0 {
                    return false;
                }
                // data.drop needs the data count section; any segment index is fine
                if self.s.passive_datas.is_empty() {
                    return false;
                }
                let di = *self.t.pick(&self.s.passive_datas);
                self.push(I::DataDrop(di));
            }
            _ => {
                if self.exec || self.s.func_elems.is_empty() {
                    return false;
                }
                let tables: Vec<u32> = self.s.tables.iter().enumerate().filter(|(_, e)| **e == VT::Func).map(|(i, _)| i as u32).collect();
                let Some(&ti) = tables.first() else { return false };
                let ei = *self.t.pick(&self.s.func_elems);
                match self.t.below(3) {
                    0 => {
                        self.push(I::I32Const(0));
                        self.push(I::I32Const(0));
                        self.push(I::I32Const(0));
                        self.push(I::TableInit { elem_index: ei, table: ti });
                    }
                    1 => self.push(I::ElemDrop(ei)),
                    _ => {
                        self.push(I::I32Const(0));
                        self.push(I::I32Const(0));
                        self.push(I::I32Const(0));
                        self.push(I::TableCopy { src_table: ti, dst_table: ti });
                    }
                }
            }
        }
        false
    }

    fn exceptions(&mut self, d: u32) -> bool {
        if self.s.tags.is_empty() {
            return false;
        }
        self.feat("exn");
        let tag = self.t.below(self.s.tags.len()) as u32;
        let (params, _) = self.s.sig(self.s.tags[tag as usize]);
        let params = params.to_vec();
        match self.t.below(if self.exec { 1 } else { 4 }) {
            0 => {
                // guarded throw
                self.expr(VT::I32, d + 1);
                self.push(I::If(BlockType::Empty));
                self.labels.push(Label { tys: vec![], is_loop: false, counter: None });
                for p in params {
                    self.expr(p, d + 1);
                }
                self.push(I::Throw(tag));
                self.labels.pop();
                self.push(I::End);
                false
            }
            1 => {
                // block $h (result params...) ; try_table (catch tag $h) body end ; <params consts> ; end ; drop*
                if d >= self.cfg.max_depth || !params.iter().all(|p| p.defaultable()) {
                    return false;
                }
                let Some(bt) = self.blockty_for(&[], &params) else { return false };
                self.push(I::Block(bt));
                self.labels.push(Label { tys: params.clone(), is_loop: false, counter: None });
                self.push(I::TryTable(BlockType::Empty, vec![we::Catch::One { tag, label: 0 }].into()));
                self.labels.push(Label { tys: vec![], is_loop: false, counter: None });
                self.block_body(&[], d + 1);
                self.labels.pop();
                self.push(I::End);
                for p in &params {
                    self.konst(*p);
                }
                self.labels.pop();
                self.push(I::End);
                for _ in &params {
                    self.push(I::Drop);
                }
                false
            }
            2 => {
                // catch_all
                if d >= self.cfg.max_depth {
                    return false;
                }
                self.push(I::Block(BlockType::Empty));
                self.labels.push(Label { tys: vec![], is_loop: false, counter: None });
                self.push(I::TryTable(BlockType::Empty, vec![we::Catch::All { label: 0 }].into()));
                self.labels.push(Label { tys: vec![], is_loop: false, counter: None });
                self.block_body(&[], d + 1);
                self.labels.pop();
                self.push(I::End);
                self.labels.pop();
                self.push(I::End);
                false
            }
            _ => {
                // catch_all_ref into an exnref block, then maybe throw_ref (guarded)
                if d >= self.cfg.max_depth || self.cfg.avoid_exnref {
                    return false;
                }
                self.push(I::Block(BlockType::Result(VT::Exn.val())));
                self.labels.push(Label { tys: vec![VT::Exn], is_loop: false, counter: None });
                self.push(I::TryTable(BlockType::Empty, vec![we::Catch::AllRef { label: 0 }].into()));
                self.labels.push(Label { tys: vec![], is_loop: false, counter: None });
                self.block_body(&[], d + 1);
                self.labels.pop();
                self.push(I::End);
                self.push(I::RefNull(VT::Exn.heap().unwrap()));
                self.labels.pop();
                self.push(I::End);
                if self.t.chance(1, 3) {
                    let l = self.new_local(VT::Exn);
                    self.push(I::LocalSet(l));
                    self.expr(VT::I32, d + 1);
                    self.push(I::If(BlockType::Empty));
                    self.push(I::LocalGet(l));
                    self.push(I::ThrowRef);
                    self.push(I::End);
                } else {
                    self.push(I::Drop);
                }
                false
            }
        }
    }

    fn gc_stmt(&mut self, d: u32) -> bool {
        self.feat("gc");
        match self.t.below(4) {
            0 => {
                // struct.set on a mutable field
                let mut c = vec![];
                for (i, t) in self.s.types.iter().enumerate() {
                    if let GComposite::Struct { fields } = &t.comp {
                        for (fi, (st, mu)) in fields.iter().enumerate() {
                            if *mu {
                                c.push((i as u32, fi as u32, st.unpacked()));
                            }
                        }
                    }
                }
                if c.is_empty() {
                    return false;
                }
                let (tix, fi, vt) = *self.t.pick(&c);
                self.expr(VT::RefNull(tix), d + 1);
                self.expr(vt, d + 1);
                self.push(I::StructSet { struct_type_index: tix, field_index: fi });
                false
            }
            1 => {
                let mut c = vec![];
                for (i, t) in self.s.types.iter().enumerate() {
                    if let GComposite::Array { elem, mutable: true } = &t.comp {
                        c.push((i as u32, elem.unpacked()));
                    }
                }
                if c.is_empty() {
                    return false;
                }
                let (tix, vt) = *self.t.pick(&c);
                self.expr(VT::RefNull(tix), d + 1);
                self.push(I::I32Const(0));
                self.expr(vt, d + 1);
                if self.t.bool() {
                    self.push(I::ArraySet(tix));
                } else {
                    self.push(I::I32Const(1));
                    self.push(I::ArrayFill(tix));
                }
                false
            }
            2 => {
                // br_on_cast: block (result anyref) <any> br_on_cast 0 anyref (ref null $t) end drop
                let c: Vec<u32> = self.s.types.iter().enumerate().filter(|(_, t)| !matches!(t.comp, GComposite::Func { .. })).map(|(i, _)| i as u32).collect();
                if c.is_empty() || d >= self.cfg.max_depth {
                    return false;
                }
                let tix = *self.t.pick(&c);
                let ValType_any = match VT::Any.val() {
                    we::ValType::Ref(r) => r,
                    _ => unreachable!(),
                };
                let to = we::RefType { nullable: true, heap_type: we::HeapType::Concrete(tix) };
                self.push(I::Block(BlockType::Result(VT::Any.val())));
                self.labels.push(Label { tys: vec![VT::Any], is_loop: false, counter: None });
                self.expr(VT::Any, d + 1);
                if self.t.bool() {
                    self.push(I::BrOnCast { relative_depth: 0, from_ref_type: ValType_any, to_ref_type: to });
                } else {
                    self.push(I::BrOnCastFail { relative_depth: 0, from_ref_type: ValType_any, to_ref_type: to });
                }
                self.labels.pop();
                self.push(I::End);
                self.push(I::Drop);
                false
            }
            _ => {
                let pool = vec![VT::Any, VT::Eq, VT::I31];
                let ty = *self.t.pick(&pool);
                self.expr(ty, d + 1);
                self.push(I::Drop);
                false
            }
        }
    }

    fn funcref_stmt(&mut self, d: u32) -> bool {
        if self.s.ref_limit == 0 || d >= self.cfg.max_depth {
            return false;
        }
        self.feat("funcrefs");
        match self.t.below(if self.exec { 2 } else { 4 }) {
            0 => {
                // block <funcref> br_on_null 0 drop end
                self.push(I::Block(BlockType::Empty));
                self.labels.push(Label { tys: vec![], is_loop: false, counter: None });
                self.expr(VT::Func, d + 1);
                self.push(I::BrOnNull(0));
                self.push(I::Drop);
                self.labels.pop();
                self.push(I::End);
                false
            }
            1 => {
                // block (result (ref func)) <funcref> br_on_non_null 0 ref.func f end drop
                let f = self.pick_ref_func();
                self.push(I::Block(BlockType::Result(VT::FuncNN.val())));
                self.labels.push(Label { tys: vec![VT::FuncNN], is_loop: false, counter: None });
                self.expr(VT::Func, d + 1);
                self.push(I::BrOnNonNull(0));
                self.push(I::RefFunc(f));
                self.labels.pop();
                self.push(I::End);
                self.push(I::Drop);
                false
            }
            2 => {
                // call_ref through a typed null/func reference
                let c = self.callable();
                if c.is_empty() {
                    return false;
                }
                let f = *self.t.pick(&c);
                let ty = self.s.func_tys[f as usize];
                let (params, results) = self.s.sig(ty);
                let (params, results) = (params.to_vec(), results.to_vec());
                for p in params {
                    self.expr(p, d + 1);
                }
                self.s.declared.borrow_mut().insert(f);
                self.push(I::RefFunc(f));
                self.push(I::CallRef(ty));
                for _ in results {
                    self.push(I::Drop);
                }
                false
            }
            _ => {
                self.expr(VT::Func, d + 1);
                self.push(I::RefAsNonNull);
                self.push(I::Drop);
                false
            }
        }
    }

    fn table_stmt(&mut self, d: u32) -> bool {
        if self.s.tables.is_empty() {
            return false;
        }
        self.feat("reftypes");
        let ti = self.t.below(self.s.tables.len()) as u32;
        let ety = self.s.tables[ti as usize];
        match self.t.below(2) {
            0 => {
                self.push(I::I32Const(0));
                self.expr(ety, d + 1);
                self.push(I::TableSet(ti));
            }
            _ => {
                self.push(I::I32Const(0));
                self.expr(ety, d + 1);
                self.push(I::I32Const(1));
                self.push(I::TableFill(ti));
            }
        }
        false
    }
}
