//! Module generators (G-static / G-exec / G-edit share one type-directed emitter).
pub mod body;
pub mod module;

pub use module::*;
pub mod component;
