//! G-comp: constructive generator of valid components.  It tracks the component index spaces
//! (types, funcs, core modules / instances / funcs, instances, nested components) and only
//! emits items that are valid in the current state; every step emits its own section, so
//! sections of one kind recur, interleaved with others.  Nested components go to depth 4 and
//! may alias types of their parents.  Item kinds the generator does not construct (async
//! builtins, resources with destructors, streams, ...) come from the repository corpus, which
//! is embedded as nested components at random positions.
use crate::tape::Tape;
use wasm_encoder as we;
use wasm_encoder::{ComponentValType as CV, PrimitiveValType as PV};

#[derive(Clone, Debug)]
enum Ty {
    /// defined value type; `named_ok`: may be exported / used in imported signatures as is
    Defined { prim_like: bool },
    /// function type over primitives only; (has_param, has_result)
    Func { simple: bool, nparams: usize, result: bool },
    Other,
}

const BUILTIN_NAMES: [&str; 28] = [
    "builtin:waitable_set_new", "builtin:waitable_set_drop", "builtin:waitable_join", "builtin:subtask_drop", "builtin:subtask_cancel", "builtin:subtask_cancel_async", "builtin:yield",
    "builtin:yield_async", "builtin:task_cancel", "builtin:context_get", "builtin:context_set", "builtin:backpressure_set", "builtin:error_context_drop", "builtin:thread_available_parallelism",
    "builtin:stream_new", "builtin:stream_drop_readable", "builtin:stream_drop_writable", "builtin:stream_cancel_read", "builtin:stream_cancel_write", "builtin:future_new", "builtin:future_drop_readable",
    "builtin:future_drop_writable", "builtin:future_cancel_read", "builtin:future_cancel_write", "builtin:resource_new", "builtin:resource_drop", "builtin:resource_rep", "builtin:resource_drop_async",
];

#[derive(Clone, Debug, Default)]
pub struct CompInfo {
    pub has_imports: bool,
    /// exported functions (name)
    pub func_exports: Vec<String>,
}

#[derive(Default)]
struct Lvl {
    types: Vec<Ty>,
    funcs: Vec<u32>, // type index of each component func (u32::MAX unknown)
    core_modules: Vec<bool>, // is the fixed import-free helper module?
    core_instances: Vec<bool>, // instance of the helper module?
    core_funcs: Vec<u8>,       // 0 = helper `f` ([]->[]), 1 = helper `g` (i32->i32), 2 = other
    instances: Vec<CompInfo>,
    components: Vec<CompInfo>,
    uniq: usize,
    /// number of core types declared at this level
    core_types: u32,
}

pub struct GenComp<'x> {
    pub module_gen: &'x mut dyn FnMut(&mut Tape) -> Option<Vec<u8>>,
    pub corpus: &'x [(String, Vec<u8>)],
    pub max_depth: usize,
    pub classes: Vec<&'static str>,
}

const PRIMS: [PV; 13] = [PV::Bool, PV::S8, PV::U8, PV::S16, PV::U16, PV::S32, PV::U32, PV::S64, PV::U64, PV::F32, PV::F64, PV::Char, PV::String];
const NUMS: [PV; 6] = [PV::S32, PV::U32, PV::S64, PV::U64, PV::F32, PV::F64];

fn helper_module() -> Vec<u8> {
    let mut m = we::Module::new();
    let mut types = we::TypeSection::new();
    types.ty().function([], []);
    types.ty().function([we::ValType::I32], [we::ValType::I32]);
    m.section(&types);
    let mut funcs = we::FunctionSection::new();
    funcs.function(0);
    funcs.function(1);
    m.section(&funcs);
    let mut mems = we::MemorySection::new();
    mems.memory(we::MemoryType { minimum: 1, maximum: None, memory64: false, shared: false, page_size_log2: None });
    m.section(&mems);
    let mut ex = we::ExportSection::new();
    ex.export("f", we::ExportKind::Func, 0);
    ex.export("g", we::ExportKind::Func, 1);
    ex.export("m", we::ExportKind::Memory, 0);
    m.section(&ex);
    let mut code = we::CodeSection::new();
    let mut f0 = we::Function::new([]);
    f0.instruction(&we::Instruction::End);
    code.function(&f0);
    let mut f1 = we::Function::new([]);
    f1.instruction(&we::Instruction::LocalGet(0));
    f1.instruction(&we::Instruction::End);
    code.function(&f1);
    m.section(&code);
    m.finish()
}

impl<'x> GenComp<'x> {
    pub fn generate(&mut self, t: &mut Tape) -> Vec<u8> {
        let mut outer: Vec<Vec<Ty>> = vec![];
        self.level(t, 0, &mut outer).0
    }

    fn level(&mut self, t: &mut Tape, depth: usize, outer: &mut Vec<Vec<Ty>>) -> (Vec<u8>, CompInfo) {
        let mut c = we::Component::new();
        let mut l = Lvl::default();
        let mut info = CompInfo::default();
        let steps = t.range(1, if depth == 0 { 12 } else { 7 });
        for _ in 0..steps {
            match t.below(16) {
                0 => {
                    let n = t.below(5);
                    let name = *t.pick(&["", "c", "producers", "name", "meta"]);
                    let name = if name == "name" { "names-x" } else { name };
                    c.section(&we::CustomSection { name: name.into(), data: t.bytes(n).into() });
                    self.classes.push("custom");
                }
                1 | 2 => {
                    // core module: generated, or the helper (import-free, known exports)
                    if t.bool() {
                        if let Some(b) = (self.module_gen)(t) {
                            c.section(&we::RawSection { id: 1, data: &b });
                            l.core_modules.push(false);
                            self.classes.push("generated_module");
                            continue;
                        }
                    }
                    let b = helper_module();
                    c.section(&we::RawSection { id: 1, data: &b });
                    l.core_modules.push(true);
                }
                3 | 4 => {
                    let mut ts = we::ComponentTypeSection::new();
                    let n = t.range(1, 3);
                    for _ in 0..n {
                        let prims_defined: Vec<u32> = l.types.iter().enumerate().filter(|(_, x)| matches!(x, Ty::Defined { .. })).map(|(i, _)| i as u32).collect();
                        let val = |t: &mut Tape| -> (CV, bool) {
                            if !prims_defined.is_empty() && t.chance(1, 3) {
                                (CV::Type(*t.pick(&prims_defined)), false)
                            } else {
                                (CV::Primitive(*t.pick(&PRIMS)), true)
                            }
                        };
                        match t.below(10) {
                            0 => {
                                let p = *t.pick(&PRIMS);
                                ts.defined_type().primitive(p);
                                l.types.push(Ty::Defined { prim_like: true });
                            }
                            1 => {
                                let nf = t.range(1, 3);
                                let mut all = true;
                                let fields: Vec<(String, CV)> = (0..nf)
                                    .map(|k| {
                                        let (v, p) = val(t);
                                        all &= p;
                                        (format!("f{}", k), v)
                                    })
                                    .collect();
                                ts.defined_type().record(fields.iter().map(|(n, v)| (n.as_str(), *v)));
                                l.types.push(Ty::Defined { prim_like: all });
                            }
                            2 => {
                                let (v, p) = val(t);
                                ts.defined_type().list(v);
                                l.types.push(Ty::Defined { prim_like: p });
                            }
                            3 => {
                                let nf = t.range(1, 3);
                                let mut all = true;
                                let vs: Vec<CV> = (0..nf)
                                    .map(|_| {
                                        let (v, p) = val(t);
                                        all &= p;
                                        v
                                    })
                                    .collect();
                                ts.defined_type().tuple(vs);
                                l.types.push(Ty::Defined { prim_like: all });
                            }
                            4 => {
                                let nf = t.range(1, 4);
                                let names: Vec<String> = (0..nf).map(|k| format!("flag-{}", (b'a' + k as u8) as char)).collect();
                                ts.defined_type().flags(names.iter().map(|s| s.as_str()));
                                l.types.push(Ty::Defined { prim_like: true });
                            }
                            5 => {
                                let nf = t.range(1, 4);
                                let names: Vec<String> = (0..nf).map(|k| format!("case-{}", (b'a' + k as u8) as char)).collect();
                                ts.defined_type().enum_type(names.iter().map(|s| s.as_str()));
                                l.types.push(Ty::Defined { prim_like: true });
                            }
                            6 => {
                                let (v, p) = val(t);
                                ts.defined_type().option(v);
                                l.types.push(Ty::Defined { prim_like: p });
                            }
                            7 => {
                                let (a, pa) = val(t);
                                let (b, pb) = val(t);
                                let ok = if t.bool() { Some(a) } else { None };
                                let err = if t.bool() { Some(b) } else { None };
                                ts.defined_type().result(ok, err);
                                l.types.push(Ty::Defined { prim_like: pa && pb });
                            }
                            8 => {
                                let nf = t.range(1, 3);
                                let mut all = true;
                                let cases: Vec<(String, Option<CV>)> = (0..nf)
                                    .map(|k| {
                                        let v = if t.bool() {
                                            let (v, p) = val(t);
                                            all &= p;
                                            Some(v)
                                        } else {
                                            None
                                        };
                                        (format!("v{}", k), v)
                                    })
                                    .collect();
                                ts.defined_type().variant(cases.iter().map(|(n, v)| (n.as_str(), *v, None)));
                                l.types.push(Ty::Defined { prim_like: all });
                            }
                            _ => {
                                // function type over numeric primitives
                                let np = t.below(3);
                                let params: Vec<(String, CV)> = (0..np).map(|k| (format!("p{}", k), CV::Primitive(*t.pick(&NUMS)))).collect();
                                let res = if t.bool() { Some(CV::Primitive(*t.pick(&NUMS))) } else { None };
                                let mut f = ts.function();
                                f.params(params.iter().map(|(n, v)| (n.as_str(), *v)));
                                f.result(res);
                                l.types.push(Ty::Func { simple: true, nparams: np, result: res.is_some() });
                            }
                        }
                    }
                    c.section(&ts);
                    self.classes.push("types");
                }
                5 => {
                    // import a function of a simple function type, or a type
                    let fts: Vec<u32> = l.types.iter().enumerate().filter(|(_, x)| matches!(x, Ty::Func { simple: true, .. })).map(|(i, _)| i as u32).collect();
                    let mut is = we::ComponentImportSection::new();
                    l.uniq += 1;
                    if !fts.is_empty() && t.bool() {
                        let ty = *t.pick(&fts);
                        is.import(&format!("imp-f{}", l.uniq), we::ComponentTypeRef::Func(ty));
                        l.funcs.push(ty);
                    } else if t.bool() {
                        is.import(&format!("imp-r{}", l.uniq), we::ComponentTypeRef::Type(we::TypeBounds::SubResource));
                        l.types.push(Ty::Other);
                    } else {
                        let dts: Vec<u32> = l.types.iter().enumerate().filter(|(_, x)| matches!(x, Ty::Defined { prim_like: true })).map(|(i, _)| i as u32).collect();
                        if dts.is_empty() {
                            continue;
                        }
                        is.import(&format!("imp-t{}", l.uniq), we::ComponentTypeRef::Type(we::TypeBounds::Eq(*t.pick(&dts))));
                        l.types.push(Ty::Defined { prim_like: true });
                    }
                    c.section(&is);
                    info.has_imports = true;
                    self.classes.push("import");
                }
                6 => {
                    // export a function or a defined type
                    let mut es = we::ComponentExportSection::new();
                    l.uniq += 1;
                    let simple_funcs: Vec<u32> = (0..l.funcs.len() as u32).filter(|i| matches!(l.types.get(l.funcs[*i as usize] as usize), Some(Ty::Func { simple: true, .. }))).collect();
                    if !simple_funcs.is_empty() && t.bool() {
                        let f = *t.pick(&simple_funcs);
                        let name = format!("exp-f{}", l.uniq);
                        es.export(&name, we::ComponentExportKind::Func, f, None);
                        l.funcs.push(l.funcs[f as usize]);
                        info.func_exports.push(name);
                    } else {
                        let dts: Vec<u32> = l.types.iter().enumerate().filter(|(_, x)| matches!(x, Ty::Defined { prim_like: true })).map(|(i, _)| i as u32).collect();
                        if dts.is_empty() {
                            continue;
                        }
                        es.export(&format!("exp-t{}", l.uniq), we::ComponentExportKind::Type, *t.pick(&dts), None);
                        l.types.push(Ty::Defined { prim_like: true });
                    }
                    c.section(&es);
                    self.classes.push("export");
                }
                7 | 8 => {
                    // nested component: generated (recursion) or from the corpus
                    if depth + 1 <= self.max_depth && (self.corpus.is_empty() || t.chance(2, 3)) {
                        outer.push(l.types.clone());
                        let (b, ci) = self.level(t, depth + 1, outer);
                        outer.pop();
                        c.section(&we::RawSection { id: 4, data: &b });
                        l.components.push(ci);
                        self.classes.push("nested_generated");
                    } else if !self.corpus.is_empty() {
                        let (_, b) = t.pick(self.corpus);
                        if b.len() > 20_000 {
                            continue;
                        }
                        c.section(&we::RawSection { id: 4, data: b });
                        l.components.push(CompInfo { has_imports: true, func_exports: vec![] });
                        self.classes.push("nested_corpus");
                    }
                }
                9 => {
                    // instantiate a nested component that needs no imports
                    let cand: Vec<u32> = (0..l.components.len() as u32).filter(|i| !l.components[*i as usize].has_imports).collect();
                    if cand.is_empty() {
                        continue;
                    }
                    let k = *t.pick(&cand);
                    let mut s = we::ComponentInstanceSection::new();
                    let no: Vec<(&str, we::ComponentExportKind, u32)> = vec![];
                    s.instantiate(k, no);
                    c.section(&s);
                    l.instances.push(l.components[k as usize].clone());
                    self.classes.push("instantiate_component");
                }
                10 => {
                    // alias a function export of an instance
                    let cand: Vec<(u32, String)> = l.instances.iter().enumerate().flat_map(|(i, ci)| ci.func_exports.iter().map(move |n| (i as u32, n.clone()))).collect();
                    if cand.is_empty() {
                        continue;
                    }
                    let (i, name) = t.pick(&cand).clone();
                    let mut s = we::ComponentAliasSection::new();
                    s.alias(we::Alias::InstanceExport { instance: i, kind: we::ComponentExportKind::Func, name: &name });
                    c.section(&s);
                    l.funcs.push(u32::MAX);
                    self.classes.push("alias_instance_export");
                }
                11 => {
                    // core instance of the helper module
                    let cand: Vec<u32> = (0..l.core_modules.len() as u32).filter(|i| l.core_modules[*i as usize]).collect();
                    if cand.is_empty() {
                        continue;
                    }
                    let mut s = we::InstanceSection::new();
                    let no: Vec<(&str, we::ModuleArg)> = vec![];
                    s.instantiate(*t.pick(&cand), no);
                    c.section(&s);
                    l.core_instances.push(true);
                    self.classes.push("core_instance");
                }
                12 => {
                    // alias a core function export of a helper instance
                    let cand: Vec<u32> = (0..l.core_instances.len() as u32).filter(|i| l.core_instances[*i as usize]).collect();
                    if cand.is_empty() {
                        continue;
                    }
                    let which = t.bool();
                    let mut s = we::ComponentAliasSection::new();
                    s.alias(we::Alias::CoreInstanceExport { instance: *t.pick(&cand), kind: we::ExportKind::Func, name: if which { "g" } else { "f" } });
                    c.section(&s);
                    l.core_funcs.push(which as u8);
                    self.classes.push("alias_core_export");
                }
                13 => {
                    // canon lift of a helper core function with a matching function type
                    let cand: Vec<(u32, u8)> = l.core_funcs.iter().enumerate().filter(|(_, k)| **k < 2).map(|(i, k)| (i as u32, *k)).collect();
                    if cand.is_empty() {
                        // nothing to lift: a core type section instead (function types, explicit
                        // recursion groups of 1-3 members incl. struct / array, a module type);
                        // the shape is a function of the position, not a tape read
                        let k = (l.types.len() * 5 + l.core_modules.len() * 3 + l.core_funcs.len() + depth) % 7;
                        let ft = |p: &[we::ValType], r: &[we::ValType]| we::SubType {
                            is_final: true,
                            supertype_idx: None,
                            composite_type: we::CompositeType { inner: we::CompositeInnerType::Func(we::FuncType::new(p.to_vec(), r.to_vec())), shared: false },
                        };
                        let st = we::SubType {
                            is_final: k % 2 == 0,
                            supertype_idx: None,
                            composite_type: we::CompositeType {
                                inner: we::CompositeInnerType::Struct(we::StructType { fields: vec![we::FieldType { element_type: we::StorageType::I8, mutable: true }, we::FieldType { element_type: we::StorageType::Val(we::ValType::I64), mutable: false }].into_boxed_slice() }),
                                shared: false,
                            },
                        };
                        if k >= 5 {
                            // an instance type / a component type whose declarations contain core
                            // types (a recursion group, a plain function type), a function type and
                            // an export resp. import that uses them
                            let mut ts = we::ComponentTypeSection::new();
                            if k == 5 {
                                let mut it = we::InstanceType::new();
                                it.core_type().core().rec(vec![ft(&[], &[we::ValType::I32]), st.clone()]);
                                it.core_type().core().subtype(&ft(&[we::ValType::I64], &[]));
                                it.ty().function().params([("a", CV::Primitive(PV::U8))]).result(None);
                                it.export("f", we::ComponentTypeRef::Func(0));
                                ts.instance(&it);
                                self.classes.push("type:instance_with_core_types");
                            } else {
                                let mut ct = we::ComponentType::new();
                                ct.core_type().core().rec(vec![st.clone()]);
                                ct.core_type().core().subtype(&ft(&[], &[]));
                                ct.ty().defined_type().primitive(PV::Bool);
                                ct.import("x", we::ComponentTypeRef::Type(we::TypeBounds::Eq(0)));
                                ts.component(&ct);
                                self.classes.push("type:component_with_core_types");
                            }
                            c.section(&ts);
                            l.types.push(Ty::Other);
                            continue;
                        }
                        let mut s = we::CoreTypeSection::new();
                        match k {
                            0 => {
                                // shared (func (param i32)): the type thread.spawn_ref wants
                                let mut spawn = ft(&[we::ValType::I32], &[]);
                                spawn.composite_type.shared = true;
                                s.ty().core().subtype(&spawn)
                            }
                            1 => s.ty().core().rec(vec![ft(&[], &[we::ValType::F64]), ft(&[we::ValType::I32, we::ValType::I64], &[we::ValType::I32])]),
                            2 => s.ty().core().rec(vec![st.clone()]),
                            3 => {
                                s.ty().core().rec(vec![ft(&[], &[]), st.clone(), ft(&[we::ValType::V128], &[])]);
                                s.ty().core().subtype(&ft(&[], &[we::ValType::I32]));
                            }
                            _ => {
                                let mut mt = we::ModuleType::new();
                                mt.ty().function([we::ValType::I32], [we::ValType::I32]);
                                mt.import("env", "f", we::EntityType::Function(0));
                                mt.export("g", we::EntityType::Function(0));
                                s.ty().module(&mt);
                            }
                        }
                        c.section(&s);
                        self.classes.push(["core_type:func", "core_type:rec2", "core_type:rec1_struct", "core_type:rec3_then_func", "core_type:module"][k]);
                        if k == 0 {
                            let mut cs = we::CanonicalFunctionSection::new();
                            cs.thread_spawn_ref(l.core_types);
                            c.section(&cs);
                            l.core_funcs.push(2);
                            self.classes.push("builtin:thread_spawn_ref");
                        }
                        l.core_types += [1, 2, 1, 4, 1][k];
                        continue;
                    }
                    let (cf, kind) = *t.pick(&cand);
                    // a fitting type: declare it right here
                    let mut ts = we::ComponentTypeSection::new();
                    {
                        let mut f = ts.function();
                        if kind == 1 {
                            f.params([("a", CV::Primitive(PV::S32))]);
                            f.result(Some(CV::Primitive(PV::U32)));
                        } else {
                            let no: Vec<(&str, CV)> = vec![];
                            f.params(no);
                            f.result(None);
                        }
                    }
                    c.section(&ts);
                    let ty = l.types.len() as u32;
                    l.types.push(Ty::Func { simple: true, nparams: kind as usize, result: kind == 1 });
                    let mut s = we::CanonicalFunctionSection::new();
                    let no: Vec<we::CanonicalOption> = vec![];
                    s.lift(cf, ty, no);
                    c.section(&s);
                    l.funcs.push(ty);
                    self.classes.push("canon_lift");
                }
                14 => {
                    // canon lower of a function with a simple type
                    let simple_funcs: Vec<u32> = (0..l.funcs.len() as u32).filter(|i| matches!(l.types.get(l.funcs[*i as usize] as usize), Some(Ty::Func { simple: true, .. }))).collect();
                    if simple_funcs.is_empty() {
                        // nothing to lower: a canonical built-in instead (async / resource /
                        // stream / future intrinsics).  Which one is a function of the position,
                        // not a tape read, so older tapes keep their other decisions.
                        let k = (l.core_funcs.len() * 7 + l.types.len() * 3 + l.funcs.len() + depth) % 28;
                        let mut s = we::CanonicalFunctionSection::new();
                        if k >= 14 {
                            // these need a stream / future / resource type: declare it right here
                            let mut ts = we::ComponentTypeSection::new();
                            match k {
                                14..=18 => ts.defined_type().stream(Some(CV::Primitive(PV::U8))),
                                19..=23 => ts.defined_type().future(if k % 2 == 0 { None } else { Some(CV::Primitive(PV::String)) }),
                                _ => {
                                    ts.resource(we::ValType::I32, None);
                                }
                            };
                            c.section(&ts);
                            l.types.push(Ty::Other);
                        }
                        let ty = (l.types.len() as u32).saturating_sub(1);
                        match k {
                            0 => s.waitable_set_new(),
                            1 => s.waitable_set_drop(),
                            2 => s.waitable_join(),
                            3 => s.subtask_drop(),
                            4 => s.subtask_cancel(false),
                            5 => s.subtask_cancel(true),
                            6 => s.yield_(false),
                            7 => s.yield_(true),
                            8 => s.task_cancel(),
                            9 => s.context_get(0),
                            10 => s.context_set(0),
                            11 => s.backpressure_set(),
                            12 => s.error_context_drop(),
                            13 => s.thread_available_parallelism(),
                            14 => s.stream_new(ty),
                            15 => s.stream_drop_readable(ty),
                            16 => s.stream_drop_writable(ty),
                            17 => s.stream_cancel_read(ty, false),
                            18 => s.stream_cancel_write(ty, true),
                            19 => s.future_new(ty),
                            20 => s.future_drop_readable(ty),
                            21 => s.future_drop_writable(ty),
                            22 => s.future_cancel_read(ty, true),
                            23 => s.future_cancel_write(ty, false),
                            24 => s.resource_new(ty),
                            25 => s.resource_drop(ty),
                            26 => s.resource_rep(ty),
                            _ => s.resource_drop_async(ty),
                        };
                        c.section(&s);
                        l.core_funcs.push(2);
                        self.classes.push("canon_builtin");
                        self.classes.push(BUILTIN_NAMES[k]);
                        continue;
                    }
                    let mut s = we::CanonicalFunctionSection::new();
                    let no: Vec<we::CanonicalOption> = vec![];
                    s.lower(*t.pick(&simple_funcs), no);
                    c.section(&s);
                    l.core_funcs.push(2);
                    self.classes.push("canon_lower");
                }
                _ => {
                    // alias a defined type of an enclosing component
                    if outer.is_empty() {
                        continue;
                    }
                    let count = t.range(1, outer.len());
                    let tys = &outer[outer.len() - count];
                    let cand: Vec<u32> = tys.iter().enumerate().filter(|(_, x)| matches!(x, Ty::Defined { .. } | Ty::Func { .. })).map(|(i, _)| i as u32).collect();
                    if cand.is_empty() {
                        continue;
                    }
                    let idx = *t.pick(&cand);
                    let mut s = we::ComponentAliasSection::new();
                    s.alias(we::Alias::Outer { kind: we::ComponentOuterAliasKind::Type, count: count as u32, index: idx });
                    c.section(&s);
                    l.types.push(tys[idx as usize].clone());
                    self.classes.push("alias_outer_type");
                }
            }
        }
        (c.finish(), info)
    }
}
