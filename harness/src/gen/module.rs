//! Module-level generation and encoding.

use super::body::{gen_body, Shape};
use crate::tape::Tape;
use std::collections::BTreeSet;
use wasm_encoder as we;
use we::{ConstExpr, HeapType, Instruction as I, RefType, ValType};

pub fn ieee32(bits: u32) -> we::Ieee32 {
    let v = we::Ieee32::from(f32::from_bits(bits));
    assert_eq!(v.bits(), bits);
    v
}
pub fn ieee64(bits: u64) -> we::Ieee64 {
    let v = we::Ieee64::from(f64::from_bits(bits));
    assert_eq!(v.bits(), bits);
    v
}

#[derive(Clone, Copy, Debug, Default, PartialEq, Eq)]
pub struct Profile {
    pub signext: bool,
    pub satfloat: bool,
    pub multivalue: bool,
    pub reftypes: bool,
    pub bulk: bool,
    pub simd: bool,
    pub tail: bool,
    pub gc: bool,
    pub funcrefs: bool,
    pub exn: bool,
    pub threads: bool,
    pub mem64: bool,
    pub multimem: bool,
}

impl Profile {
    pub fn mvp() -> Self {
        Profile::default()
    }
    pub fn from_tape(t: &mut Tape) -> Self {
        // each family on with probability 1/3; tape zeros = MVP
        let mut on = |t: &mut Tape| t.chance(1, 3);
        Profile {
            signext: on(t),
            satfloat: on(t),
            multivalue: on(t),
            reftypes: on(t),
            bulk: on(t),
            simd: on(t),
            tail: on(t),
            gc: on(t),
            funcrefs: on(t),
            exn: on(t),
            threads: on(t),
            mem64: on(t),
            multimem: on(t),
        }
    }
    pub fn any_non_mvp(&self) -> bool {
        *self != Profile::default()
    }
    pub fn names(&self) -> Vec<&'static str> {
        let mut v = vec![];
        macro_rules! f {
            ($($n:ident),*) => { $( if self.$n { v.push(stringify!($n)); } )* };
        }
        f!(signext, satfloat, multivalue, reftypes, bulk, simd, tail, gc, funcrefs, exn, threads, mem64, multimem);
        v
    }
}

#[derive(Clone, Copy, Debug, PartialEq, Eq)]
pub enum Kind {
    /// feature-rich, not necessarily terminating
    Static,
    /// executable, terminating subset (reference interpreter)
    Exec,
    /// small modules with identity markers and many reference sites
    Edit,
}

#[derive(Clone, Debug)]
pub struct GenCfg {
    pub profile: Profile,
    pub kind: Kind,
    pub max_funcs: usize,
    /// at least this many local functions (0 = modules without code are generated too)
    pub min_funcs: usize,
    pub max_stmts: usize,
    pub max_depth: u32,
    /// import `host.log : (i32) -> ()` as function 0
    pub host_log: bool,
    pub names: bool,
    pub customs: bool,
    /// avoid nullable exnref / shared abstract heap types in signatures, locals, block types
    pub avoid_exnref: bool,
    pub avoid_start: bool,
    /// do not place the name section in front of the code section
    pub avoid_early_names: bool,
    /// nothing refers to the last local function (C12 rebuilds it through the FunctionBuilder)
    pub reserve_last: bool,
}

impl GenCfg {
    pub fn new(kind: Kind, profile: Profile) -> Self {
        GenCfg {
            profile,
            kind,
            max_funcs: 5,
            min_funcs: 0,
            max_stmts: 4,
            max_depth: 3,
            host_log: kind == Kind::Exec,
            names: true,
            customs: true,
            avoid_exnref: false,
            avoid_start: false,
            avoid_early_names: false,
            reserve_last: false,
        }
    }
}

/// Value types the generator knows.  All abstract reference types are nullable unless noted.
#[derive(Clone, Copy, Debug, PartialEq, Eq, Hash, PartialOrd, Ord)]
pub enum VT {
    I32,
    I64,
    F32,
    F64,
    V128,
    Func,
    Extern,
    Exn,
    Any,
    Eq,
    I31,
    StructR,
    ArrayR,
    NoneR,
    /// (ref null $t)
    RefNull(u32),
    /// (ref $t) — params / block results only (not defaultable)
    RefNN(u32),
    /// (ref func) — non-null abstract, block results only
    FuncNN,
    /// any abstract heap type (index into ABS_HEAPS) with either nullability: decorative
    /// positions only (an unused function type's parameters / results, unused nullable locals)
    Abs(u8, bool),
}

pub const ABS_HEAPS: [we::AbstractHeapType; 12] = {
    use we::AbstractHeapType as A;
    [A::Func, A::Extern, A::Any, A::None, A::NoExtern, A::NoFunc, A::Eq, A::Struct, A::Array, A::I31, A::Exn, A::NoExn]
};

impl VT {
    pub fn val(self) -> ValType {
        use we::AbstractHeapType as A;
        let abs = |ty, nullable| ValType::Ref(RefType { nullable, heap_type: HeapType::Abstract { shared: false, ty } });
        match self {
            VT::I32 => ValType::I32,
            VT::I64 => ValType::I64,
            VT::F32 => ValType::F32,
            VT::F64 => ValType::F64,
            VT::V128 => ValType::V128,
            VT::Func => abs(A::Func, true),
            VT::Extern => abs(A::Extern, true),
            VT::Exn => abs(A::Exn, true),
            VT::Any => abs(A::Any, true),
            VT::Eq => abs(A::Eq, true),
            VT::I31 => abs(A::I31, true),
            VT::StructR => abs(A::Struct, true),
            VT::ArrayR => abs(A::Array, true),
            VT::NoneR => abs(A::None, true),
            VT::RefNull(t) => ValType::Ref(RefType { nullable: true, heap_type: HeapType::Concrete(t) }),
            VT::RefNN(t) => ValType::Ref(RefType { nullable: false, heap_type: HeapType::Concrete(t) }),
            VT::FuncNN => abs(A::Func, false),
            VT::Abs(k, nullable) => abs(ABS_HEAPS[k as usize % 12], nullable),
        }
    }
    pub fn heap(self) -> Option<HeapType> {
        match self.val() {
            ValType::Ref(r) => Some(r.heap_type),
            _ => None,
        }
    }
    pub fn defaultable(self) -> bool {
        !matches!(self, VT::RefNN(_) | VT::FuncNN | VT::Abs(_, false))
    }
    pub fn is_num(self) -> bool {
        matches!(self, VT::I32 | VT::I64 | VT::F32 | VT::F64)
    }
    pub fn is_ref(self) -> bool {
        !matches!(self, VT::I32 | VT::I64 | VT::F32 | VT::F64 | VT::V128)
    }
}

#[derive(Clone, Debug, PartialEq, Eq)]
pub enum Storage {
    I8,
    I16,
    Val(VT),
}
impl Storage {
    pub fn enc(&self) -> we::StorageType {
        match self {
            Storage::I8 => we::StorageType::I8,
            Storage::I16 => we::StorageType::I16,
            Storage::Val(v) => we::StorageType::Val(v.val()),
        }
    }
    pub fn unpacked(&self) -> VT {
        match self {
            Storage::I8 | Storage::I16 => VT::I32,
            Storage::Val(v) => *v,
        }
    }
    pub fn packed(&self) -> bool {
        !matches!(self, Storage::Val(_))
    }
    pub fn defaultable(&self) -> bool {
        match self {
            Storage::Val(v) => v.defaultable(),
            _ => true,
        }
    }
}

#[derive(Clone, Debug, PartialEq, Eq)]
pub enum GComposite {
    Func { params: Vec<VT>, results: Vec<VT> },
    Struct { fields: Vec<(Storage, bool)> },
    Array { elem: Storage, mutable: bool },
}

#[derive(Clone, Debug, PartialEq, Eq)]
pub struct GType {
    pub comp: GComposite,
    pub supertype: Option<u32>,
    pub is_final: bool,
}

impl GType {
    pub fn func(params: Vec<VT>, results: Vec<VT>) -> GType {
        GType { comp: GComposite::Func { params, results }, supertype: None, is_final: true }
    }
    pub fn sub(&self) -> we::SubType {
        let inner = match &self.comp {
            GComposite::Func { params, results } => we::CompositeInnerType::Func(we::FuncType::new(
                params.iter().map(|v| v.val()),
                results.iter().map(|v| v.val()),
            )),
            GComposite::Struct { fields } => we::CompositeInnerType::Struct(we::StructType {
                fields: fields.iter().map(|(s, m)| we::FieldType { element_type: s.enc(), mutable: *m }).collect(),
            }),
            GComposite::Array { elem, mutable } => {
                we::CompositeInnerType::Array(we::ArrayType(we::FieldType { element_type: elem.enc(), mutable: *mutable }))
            }
        };
        we::SubType {
            is_final: self.is_final,
            supertype_idx: self.supertype,
            composite_type: we::CompositeType { inner, shared: false },
        }
    }
}

#[derive(Clone, Debug)]
pub struct GRecGroup {
    pub explicit: bool,
    pub len: usize,
}

#[derive(Clone, Copy, Debug, PartialEq, Eq)]
pub struct MemT {
    pub min: u64,
    pub max: Option<u64>,
    pub is64: bool,
    pub shared: bool,
}
impl MemT {
    pub fn enc(&self) -> we::MemoryType {
        we::MemoryType { minimum: self.min, maximum: self.max, memory64: self.is64, shared: self.shared, page_size_log2: None }
    }
}

#[derive(Clone, Debug, PartialEq, Eq)]
pub struct TableT {
    pub elem: VT,
    pub min: u64,
    pub max: Option<u64>,
}
impl TableT {
    pub fn enc(&self) -> we::TableType {
        let ValType::Ref(r) = self.elem.val() else { unreachable!() };
        we::TableType { element_type: r, table64: false, minimum: self.min, maximum: self.max, shared: false }
    }
}

#[derive(Clone, Debug)]
pub enum GImportKind {
    Func(u32),
    Global(VT, bool),
    Memory(MemT),
    Table(TableT),
    Tag(u32),
}

#[derive(Clone, Debug)]
pub struct GImport {
    pub module: String,
    pub name: String,
    pub kind: GImportKind,
}

/// Constant expressions the generator uses.
#[derive(Clone, Debug, PartialEq)]
pub enum GConst {
    I32(i32),
    I64(i64),
    F32(u32),
    F64(u64),
    V128(u128),
    RefNull(VT),
    RefFunc(u32),
    GlobalGet(u32),
}
impl GConst {
    pub fn enc(&self) -> ConstExpr {
        match self {
            GConst::I32(v) => ConstExpr::i32_const(*v),
            GConst::I64(v) => ConstExpr::i64_const(*v),
            GConst::F32(b) => ConstExpr::f32_const(ieee32(*b)),
            GConst::F64(b) => ConstExpr::f64_const(ieee64(*b)),
            GConst::V128(v) => ConstExpr::v128_const(*v as i128),
            GConst::RefNull(t) => ConstExpr::ref_null(t.heap().unwrap()),
            GConst::RefFunc(f) => ConstExpr::ref_func(*f),
            GConst::GlobalGet(g) => ConstExpr::global_get(*g),
        }
    }
}

#[derive(Clone, Debug)]
pub struct GGlobal {
    pub ty: VT,
    pub mutable: bool,
    pub init: GConst,
}

#[derive(Clone, Debug)]
pub struct GTable {
    pub ty: TableT,
    pub init: Option<GConst>,
}

#[derive(Clone, Debug)]
pub struct GFunc {
    pub ty: u32,
    pub locals: Vec<VT>,
    pub body: Vec<I<'static>>,
    /// identity marker (Kind::Edit): body starts with `i64.const uid; drop`
    pub uid: Option<i64>,
}

#[derive(Clone, Debug)]
pub enum GElemItems {
    Funcs(Vec<u32>),
    Exprs(VT, Vec<GConst>),
}
#[derive(Clone, Debug)]
pub enum GElemMode {
    Active { table: Option<u32>, offset: GConst },
    Passive,
    Declared,
}
#[derive(Clone, Debug)]
pub struct GElem {
    pub mode: GElemMode,
    pub items: GElemItems,
}

#[derive(Clone, Debug)]
pub struct GData {
    /// Some((memory, offset)) = active
    pub active: Option<(u32, GConst)>,
    pub bytes: Vec<u8>,
}

#[derive(Clone, Debug)]
pub struct GExport {
    pub name: String,
    pub kind: we::ExportKind,
    pub index: u32,
}

#[derive(Clone, Debug, Default)]
pub struct GNames {
    pub module: Option<String>,
    pub funcs: Vec<(u32, String)>,
    pub locals: Vec<(u32, Vec<(u32, String)>)>,
    pub labels: Vec<(u32, Vec<(u32, String)>)>,
    pub types: Vec<(u32, String)>,
    pub tables: Vec<(u32, String)>,
    pub mems: Vec<(u32, String)>,
    pub globals: Vec<(u32, String)>,
    pub elems: Vec<(u32, String)>,
    pub datas: Vec<(u32, String)>,
    pub fields: Vec<(u32, Vec<(u32, String)>)>,
    pub tags: Vec<(u32, String)>,
}

#[derive(Clone, Debug)]
pub struct GCustom {
    /// slot 0 = before the type section … 13 = at the very end
    pub slot: u8,
    pub name: String,
    pub data: Vec<u8>,
}

#[derive(Clone, Debug, Default)]
pub struct GModule {
    pub types: Vec<GType>,
    pub groups: Vec<GRecGroup>,
    pub imports: Vec<GImport>,
    pub funcs: Vec<GFunc>,
    pub tables: Vec<GTable>,
    pub mems: Vec<MemT>,
    pub tags: Vec<u32>,
    pub globals: Vec<GGlobal>,
    pub exports: Vec<GExport>,
    pub start: Option<u32>,
    pub elems: Vec<GElem>,
    pub datas: Vec<GData>,
    pub data_count: bool,
    pub names: Option<GNames>,
    /// 0 = end of module (normal); 1 = directly before the code section
    pub names_early: bool,
    pub customs: Vec<GCustom>,
    pub features_used: Vec<&'static str>,
}

impl GModule {
    pub fn n_func_imports(&self) -> usize {
        self.imports.iter().filter(|i| matches!(i.kind, GImportKind::Func(_))).count()
    }
    pub fn n_global_imports(&self) -> usize {
        self.imports.iter().filter(|i| matches!(i.kind, GImportKind::Global(..))).count()
    }
    pub fn n_mem_imports(&self) -> usize {
        self.imports.iter().filter(|i| matches!(i.kind, GImportKind::Memory(_))).count()
    }
    pub fn n_table_imports(&self) -> usize {
        self.imports.iter().filter(|i| matches!(i.kind, GImportKind::Table(_))).count()
    }
    pub fn n_tag_imports(&self) -> usize {
        self.imports.iter().filter(|i| matches!(i.kind, GImportKind::Tag(_))).count()
    }
    /// Does the module mention the nullable exception reference type anywhere?
    pub fn uses_exnref(&self) -> bool {
        let in_types = self.types.iter().any(|t| match &t.comp {
            GComposite::Func { params, results } => params.iter().chain(results.iter()).any(|v| *v == VT::Exn),
            GComposite::Struct { fields } => fields.iter().any(|(s, _)| *s == Storage::Val(VT::Exn)),
            GComposite::Array { elem, .. } => *elem == Storage::Val(VT::Exn),
        });
        let exn_heap = |h: &HeapType| matches!(h, HeapType::Abstract { ty: we::AbstractHeapType::Exn, .. });
        let exn_val = |v: &ValType| matches!(v, ValType::Ref(r) if exn_heap(&r.heap_type));
        in_types
            || self.globals.iter().any(|g| g.ty == VT::Exn)
            || self.imports.iter().any(|i| matches!(&i.kind, GImportKind::Global(VT::Exn, _)))
            || self.funcs.iter().any(|f| {
                f.locals.iter().any(|l| *l == VT::Exn)
                    || f.body.iter().any(|i| match i {
                        I::RefNull(h) => exn_heap(h),
                        I::Block(we::BlockType::Result(v)) | I::Loop(we::BlockType::Result(v)) | I::If(we::BlockType::Result(v)) => exn_val(v),
                        I::TypedSelect(v) => exn_val(v),
                        I::ThrowRef => true,
                        _ => false,
                    })
            })
    }
    pub fn total_instrs(&self) -> usize {
        self.funcs.iter().map(|f| f.body.len()).sum()
    }

    pub fn encode(&self) -> Vec<u8> {
        let mut m = we::Module::new();
        let customs = |m: &mut we::Module, slot: u8| {
            for c in self.customs.iter().filter(|c| c.slot == slot) {
                m.section(&we::CustomSection { name: c.name.as_str().into(), data: c.data.as_slice().into() });
            }
        };
        customs(&mut m, 0);
        if !self.types.is_empty() {
            let mut s = we::TypeSection::new();
            let mut i = 0usize;
            for g in &self.groups {
                if g.explicit {
                    s.ty().rec(self.types[i..i + g.len].iter().map(|t| t.sub()));
                } else {
                    s.ty().subtype(&self.types[i].sub());
                }
                i += g.len;
            }
            m.section(&s);
        }
        customs(&mut m, 1);
        if !self.imports.is_empty() {
            let mut s = we::ImportSection::new();
            for im in &self.imports {
                let ty: we::EntityType = match &im.kind {
                    GImportKind::Func(t) => we::EntityType::Function(*t),
                    GImportKind::Global(v, mu) => {
                        we::EntityType::Global(we::GlobalType { val_type: v.val(), mutable: *mu, shared: false })
                    }
                    GImportKind::Memory(mt) => we::EntityType::Memory(mt.enc()),
                    GImportKind::Table(tt) => we::EntityType::Table(tt.enc()),
                    GImportKind::Tag(t) => we::EntityType::Tag(we::TagType { kind: we::TagKind::Exception, func_type_idx: *t }),
                };
                s.import(&im.module, &im.name, ty);
            }
            m.section(&s);
        }
        customs(&mut m, 2);
        if !self.funcs.is_empty() {
            let mut s = we::FunctionSection::new();
            for f in &self.funcs {
                s.function(f.ty);
            }
            m.section(&s);
        }
        customs(&mut m, 3);
        if !self.tables.is_empty() {
            let mut s = we::TableSection::new();
            for t in &self.tables {
                match &t.init {
                    None => s.table(t.ty.enc()),
                    Some(c) => s.table_with_init(t.ty.enc(), &c.enc()),
                };
            }
            m.section(&s);
        }
        customs(&mut m, 4);
        if !self.mems.is_empty() {
            let mut s = we::MemorySection::new();
            for mt in &self.mems {
                s.memory(mt.enc());
            }
            m.section(&s);
        }
        customs(&mut m, 5);
        if !self.tags.is_empty() {
            let mut s = we::TagSection::new();
            for t in &self.tags {
                s.tag(we::TagType { kind: we::TagKind::Exception, func_type_idx: *t });
            }
            m.section(&s);
        }
        if !self.globals.is_empty() {
            let mut s = we::GlobalSection::new();
            for g in &self.globals {
                s.global(we::GlobalType { val_type: g.ty.val(), mutable: g.mutable, shared: false }, &g.init.enc());
            }
            m.section(&s);
        }
        customs(&mut m, 6);
        if !self.exports.is_empty() {
            let mut s = we::ExportSection::new();
            for e in &self.exports {
                s.export(&e.name, e.kind, e.index);
            }
            m.section(&s);
        }
        customs(&mut m, 7);
        if let Some(f) = self.start {
            m.section(&we::StartSection { function_index: f });
        }
        customs(&mut m, 8);
        if !self.elems.is_empty() {
            let mut s = we::ElementSection::new();
            for e in &self.elems {
                let exprs: Vec<ConstExpr>;
                let items = match &e.items {
                    GElemItems::Funcs(f) => we::Elements::Functions(f.as_slice().into()),
                    GElemItems::Exprs(vt, cs) => {
                        exprs = cs.iter().map(|c| c.enc()).collect();
                        let ValType::Ref(r) = vt.val() else { unreachable!() };
                        we::Elements::Expressions(r, exprs.as_slice().into())
                    }
                };
                match &e.mode {
                    GElemMode::Active { table, offset } => s.active(*table, &offset.enc(), items),
                    GElemMode::Passive => s.passive(items),
                    GElemMode::Declared => s.declared(items),
                };
            }
            m.section(&s);
        }
        customs(&mut m, 9);
        if self.data_count {
            m.section(&we::DataCountSection { count: self.datas.len() as u32 });
        }
        customs(&mut m, 10);
        if self.names_early {
            self.emit_names(&mut m);
        }
        if !self.funcs.is_empty() {
            let mut s = we::CodeSection::new();
            for f in &self.funcs {
                let mut func = we::Function::new_with_locals_types(f.locals.iter().map(|v| v.val()));
                for ins in &f.body {
                    func.instruction(ins);
                }
                s.function(&func);
            }
            m.section(&s);
        }
        customs(&mut m, 11);
        if !self.datas.is_empty() {
            let mut s = we::DataSection::new();
            for d in &self.datas {
                match &d.active {
                    Some((mem, off)) => s.active(*mem, &off.enc(), d.bytes.iter().copied()),
                    None => s.passive(d.bytes.iter().copied()),
                };
            }
            m.section(&s);
        }
        customs(&mut m, 12);
        if !self.names_early {
            self.emit_names(&mut m);
        }
        customs(&mut m, 13);
        m.finish()
    }

    fn emit_names(&self, m: &mut we::Module) {
        let Some(n) = &self.names else { return };
        let mut s = we::NameSection::new();
        let nm = |v: &Vec<(u32, String)>| {
            let mut m = we::NameMap::new();
            for (i, n) in v {
                m.append(*i, n);
            }
            m
        };
        let inm = |v: &Vec<(u32, Vec<(u32, String)>)>| {
            let mut m = we::IndirectNameMap::new();
            for (i, inner) in v {
                m.append(*i, &nm(inner));
            }
            m
        };
        if let Some(name) = &n.module {
            s.module(name);
        }
        if !n.funcs.is_empty() {
            s.functions(&nm(&n.funcs));
        }
        if !n.locals.is_empty() {
            s.locals(&inm(&n.locals));
        }
        if !n.labels.is_empty() {
            s.labels(&inm(&n.labels));
        }
        if !n.types.is_empty() {
            s.types(&nm(&n.types));
        }
        if !n.tables.is_empty() {
            s.tables(&nm(&n.tables));
        }
        if !n.mems.is_empty() {
            s.memories(&nm(&n.mems));
        }
        if !n.globals.is_empty() {
            s.globals(&nm(&n.globals));
        }
        if !n.elems.is_empty() {
            s.elements(&nm(&n.elems));
        }
        if !n.datas.is_empty() {
            s.data(&nm(&n.datas));
        }
        if !n.fields.is_empty() {
            s.fields(&inm(&n.fields));
        }
        if !n.tags.is_empty() {
            s.tags(&nm(&n.tags));
        }
        m.section(&s);
    }
}

/// Marker constant of the k-th local function of an Edit-kind module.
pub fn marker_uid(k: usize) -> i64 {
    0x5EED_0000 + k as i64
}

fn pool_types(t: &mut Tape, p: &Profile, kind: Kind) -> Vec<VT> {
    let mut v = vec![VT::I32, VT::I64, VT::F32, VT::F64];
    if kind == Kind::Exec {
        return v;
    }
    if p.simd {
        v.push(VT::V128);
    }
    if p.reftypes {
        v.push(VT::Func);
        v.push(VT::Extern);
    }
    let _ = t;
    v
}

pub fn gen_module(t: &mut Tape, cfg: &GenCfg) -> GModule {
    let p = cfg.profile;
    let exec = cfg.kind == Kind::Exec;
    let edit = cfg.kind == Kind::Edit;
    let mut m = GModule::default();
    let mut feats: BTreeSet<&'static str> = BTreeSet::new();

    // ---------- types ----------
    // function signatures over a small pool; sampled with replacement => duplicates happen
    let mut vals = pool_types(t, &p, cfg.kind);
    let mut struct_types: Vec<u32> = vec![];
    let mut array_types: Vec<u32> = vec![];
    if p.gc && !exec {
        feats.insert("gc");
        // a few struct/array types, possibly in an explicit rec group, with subtyping
        let n = t.range(1, 3);
        let explicit = t.chance(1, 2);
        let base = m.types.len() as u32;
        for k in 0..n {
            let idx = base + k as u32;
            let ty = if t.chance(1, 2) {
                let nf = t.below(3);
                let mut fields = vec![];
                for _ in 0..nf {
                    let st = match t.below(6) {
                        0 => Storage::I8,
                        1 => Storage::I16,
                        2 => Storage::Val(VT::I64),
                        3 => Storage::Val(VT::F32),
                        4 if k > 0 || explicit => Storage::Val(VT::RefNull(base + t.below(if explicit { n } else { k }) as u32)),
                        _ => Storage::Val(VT::I32),
                    };
                    fields.push((st, t.bool()));
                }
                struct_types.push(idx);
                GType { comp: GComposite::Struct { fields }, supertype: None, is_final: !t.chance(1, 3) }
            } else {
                let st = match t.below(5) {
                    0 => Storage::I8,
                    1 => Storage::I16,
                    2 => Storage::Val(VT::F64),
                    3 => Storage::Val(VT::Any),
                    _ => Storage::Val(VT::I32),
                };
                array_types.push(idx);
                GType { comp: GComposite::Array { elem: st, mutable: t.bool() }, supertype: None, is_final: !t.chance(1, 3) }
            };
            m.types.push(ty);
        }
        if explicit {
            m.groups.push(GRecGroup { explicit: true, len: n });
        } else {
            for _ in 0..n {
                m.groups.push(GRecGroup { explicit: false, len: 1 });
            }
        }
        // a subtype of a non-final struct, when there is one
        if let Some(&sup) = struct_types.iter().find(|&&s| !m.types[s as usize].is_final) {
            if t.chance(1, 2) {
                let GComposite::Struct { fields } = m.types[sup as usize].comp.clone() else { unreachable!() };
                let mut f2 = fields.clone();
                f2.push((Storage::Val(VT::I32), true));
                let idx = m.types.len() as u32;
                m.types.push(GType { comp: GComposite::Struct { fields: f2 }, supertype: Some(sup), is_final: true });
                m.groups.push(GRecGroup { explicit: false, len: 1 });
                struct_types.push(idx);
            }
        }
        for &s in struct_types.iter().chain(array_types.iter()) {
            if vals.len() < 12 {
                vals.push(VT::RefNull(s));
            }
        }
        vals.push(VT::Any);
        vals.push(VT::Eq);
        vals.push(VT::I31);
        if t.chance(1, 3) {
            vals.push(VT::StructR);
            vals.push(VT::ArrayR);
            vals.push(VT::NoneR);
        }
    }
    if p.exn && !exec && !cfg.avoid_exnref {
        vals.push(VT::Exn);
    }
    let sig_pool_n = t.range(2, 5);
    let mut sig_pool: Vec<(Vec<VT>, Vec<VT>)> = vec![(vec![], vec![])];
    for _ in 0..sig_pool_n {
        let np = t.below(4);
        let params: Vec<VT> = (0..np).map(|_| *t.pick(&vals)).collect();
        let nr = if p.multivalue { t.below(4) } else { t.below(2) };
        let results: Vec<VT> = (0..nr).map(|_| *t.pick(&vals)).collect();
        if nr > 1 {
            feats.insert("multivalue");
        }
        sig_pool.push((params, results));
    }
    let n_sigs = t.range(1, 6);
    let mut func_type_idxs: Vec<u32> = vec![];
    // () -> () always present (start function, host-free helpers)
    func_type_idxs.push(m.types.len() as u32);
    m.types.push(GType::func(vec![], vec![]));
    m.groups.push(GRecGroup { explicit: false, len: 1 });
    if cfg.host_log {
        func_type_idxs.push(m.types.len() as u32);
        m.types.push(GType::func(vec![VT::I32], vec![]));
        m.groups.push(GRecGroup { explicit: false, len: 1 });
    }
    for _ in 0..n_sigs {
        let (pa, re) = t.pick(&sig_pool).clone();
        func_type_idxs.push(m.types.len() as u32);
        m.types.push(GType::func(pa, re));
        m.groups.push(GRecGroup { explicit: false, len: 1 });
    }
    if p.gc && !exec && t.chance(1, 3) {
        // an explicit rec group made only of function types
        let n = t.range(1, 2);
        for _ in 0..n {
            let (pa, re) = t.pick(&sig_pool).clone();
            func_type_idxs.push(m.types.len() as u32);
            m.types.push(GType::func(pa, re));
        }
        m.groups.push(GRecGroup { explicit: true, len: n });
    }
    if p.gc && !exec && t.chance(1, 3) {
        // open (non-final) function types, the later ones declared as subtypes of an earlier
        // one with the same signature: the same signature then exists several times, but never
        // as a plain final declaration of its own
        let (pa, re) = t.pick(&sig_pool).clone();
        let n = t.range(1, 3);
        let mut prev: Option<u32> = None;
        for _ in 0..n {
            let idx = m.types.len() as u32;
            func_type_idxs.push(idx);
            m.types.push(GType { comp: GComposite::Func { params: pa.clone(), results: re.clone() }, supertype: if t.bool() { prev } else { None }, is_final: false });
            m.groups.push(GRecGroup { explicit: false, len: 1 });
            prev = Some(idx);
        }
        feats.insert("gc");
    }
    let void_ty = func_type_idxs[0];
    let log_ty = if cfg.host_log { func_type_idxs[1] } else { 0 };

    // ---------- imports ----------
    let mut imp_k = 0usize;
    let mut fresh_imp = |kind: GImportKind, imp_k: &mut usize| {
        let k = *imp_k;
        *imp_k += 1;
        GImport { module: format!("m{}", k % 3), name: format!("f{}", k), kind }
    };
    if cfg.host_log {
        m.imports.push(GImport { module: "host".into(), name: "log".into(), kind: GImportKind::Func(log_ty) });
    }
    let n_imp = if exec { t.below(3) } else { t.below(7) };
    let mut want_mem_import = false;
    for _ in 0..n_imp {
        let sel = if exec { 1 } else { t.below(6) };
        let k = match sel {
            0 | 5 => GImportKind::Func(*t.pick(&func_type_idxs)),
            1 => {
                let pt = pool_types(t, &p, cfg.kind);
                let ty = *t.pick(&pt);
                GImportKind::Global(ty, if exec { false } else { t.chance(1, 3) })
            }
            2 => {
                if m.n_mem_imports() >= 1 && !p.multimem {
                    continue;
                }
                want_mem_import = true;
                let k = m.n_mem_imports() as u64;
                let is64 = p.mem64 && t.chance(1, 3);
                let shared = p.threads && t.chance(1, 3);
                GImportKind::Memory(MemT { min: k + 1, max: if shared || t.bool() { Some(k + 20) } else { None }, is64, shared })
            }
            3 => {
                if !p.reftypes && m.n_table_imports() >= 1 {
                    continue;
                }
                GImportKind::Table(TableT {
                    elem: if p.reftypes && t.chance(1, 4) { VT::Extern } else { VT::Func },
                    min: t.below(4) as u64,
                    max: if t.bool() { Some(10) } else { None },
                })
            }
            _ => {
                if !p.exn {
                    continue;
                }
                // tag types: params only, no results
                let cand: Vec<u32> = func_type_idxs
                    .iter()
                    .copied()
                    .filter(|&i| matches!(&m.types[i as usize].comp, GComposite::Func { results, .. } if results.is_empty()))
                    .collect();
                GImportKind::Tag(*t.pick(&cand))
            }
        };
        let im = fresh_imp(k, &mut imp_k);
        m.imports.push(im);
    }
    let _ = want_mem_import;

    // ---------- memories ----------
    let max_mems = if p.multimem { if exec { 2 } else { 4 } } else { 1 };
    let mut n_mems_local = 0;
    let have_imp_mem = m.n_mem_imports();
    if have_imp_mem < max_mems {
        let want = if edit || exec { t.range(if have_imp_mem == 0 { 1 } else { 0 }, max_mems - have_imp_mem) } else { t.below(max_mems - have_imp_mem + 1) };
        n_mems_local = want;
    }
    for _ in 0..n_mems_local {
        let k = (have_imp_mem + m.mems.len()) as u64;
        let is64 = !exec && p.mem64 && t.chance(1, 3);
        let shared = !exec && p.threads && t.chance(1, 3);
        m.mems.push(MemT { min: k + 1, max: if shared || t.bool() { Some(k + 20) } else { None }, is64, shared });
    }
    if m.mems.iter().any(|x| x.is64) || m.imports.iter().any(|i| matches!(&i.kind, GImportKind::Memory(mt) if mt.is64)) {
        feats.insert("mem64");
    }
    if have_imp_mem + m.mems.len() > 1 {
        feats.insert("multimem");
    }

    // ---------- tables ----------
    let n_tables_local = if p.reftypes { t.below(3) } else if m.n_table_imports() == 0 { t.below(2) } else { 0 };
    // ---------- functions: signatures first ----------
    let n_funcs = t.range(if exec || edit { 1 } else { cfg.min_funcs.min(cfg.max_funcs) }, cfg.max_funcs);
    let mut func_tys: Vec<u32> = vec![];
    for _ in 0..n_funcs {
        func_tys.push(*t.pick(&func_type_idxs));
    }
    let n_fimp = m.n_func_imports();
    let all_funcs = n_fimp + n_funcs;
    // functions that may be referenced (the reserved last one is not)
    let total_funcs = if cfg.reserve_last && n_funcs > 0 { all_funcs - 1 } else { all_funcs };

    for _ in 0..n_tables_local {
        let elem = if p.reftypes && t.chance(1, 4) { VT::Extern } else { VT::Func };
        let init = if elem == VT::Func && total_funcs > 0 && p.funcrefs && !exec && t.chance(1, 3) {
            Some(GConst::RefFunc(t.below(total_funcs) as u32))
        } else {
            None
        };
        m.tables.push(GTable { ty: TableT { elem, min: if exec { 8 } else { t.below(9) as u64 }, max: if t.bool() { Some(16) } else { None } }, init });
    }
    if exec && m.tables.is_empty() && m.n_table_imports() == 0 && t.chance(2, 3) {
        m.tables.push(GTable { ty: TableT { elem: VT::Func, min: 8, max: None }, init: None });
    }

    // ---------- tags ----------
    if p.exn {
        feats.insert("exn");
        let cand: Vec<u32> = func_type_idxs
            .iter()
            .copied()
            .filter(|&i| matches!(&m.types[i as usize].comp, GComposite::Func { results, .. } if results.is_empty()))
            .collect();
        for _ in 0..t.range(if exec { 1 } else { 0 }, 2) {
            m.tags.push(*t.pick(&cand));
        }
    }

    // ---------- globals ----------
    let n_gimp = m.n_global_imports();
    let gtypes = pool_types(t, &p, cfg.kind);
    let n_globals = t.range(if edit { 1 } else { 0 }, 4);
    let imp_globals: Vec<(u32, VT, bool)> = {
        let mut v = vec![];
        let mut gi = 0;
        for im in &m.imports {
            if let GImportKind::Global(ty, mu) = &im.kind {
                v.push((gi, *ty, *mu));
                gi += 1;
            }
        }
        v
    };
    let mut used_ident: BTreeSet<String> = BTreeSet::new();
    for k in 0..n_globals {
        let ty = *t.pick(&gtypes);
        let mutable = t.bool();
        let uniq = 7000 + k as i64;
        let plain = |ty: VT, t: &mut Tape| match ty {
            VT::I32 => GConst::I32(if edit { uniq as i32 } else { t.i32v() }),
            VT::I64 => GConst::I64(if edit { uniq } else { t.i64v() }),
            VT::F32 => GConst::F32(if edit { (uniq as f32).to_bits() } else { t.f32bits() }),
            VT::F64 => GConst::F64(if edit { (uniq as f64).to_bits() } else { t.f64bits() }),
            VT::V128 => GConst::V128(if edit { uniq as u128 } else { t.u128() }),
            other => GConst::RefNull(other),
        };
        let mut init = plain(ty, t);
        let choice = t.below(6);
        if choice == 0 && !exec {
            // global.get of an imported immutable global of the same type
            if let Some((gi, _, _)) = imp_globals.iter().find(|(_, gt, mu)| *gt == ty && !*mu) {
                init = GConst::GlobalGet(*gi);
            }
        } else if choice == 1 && ty == VT::Func && total_funcs > 0 {
            init = GConst::RefFunc(t.below(total_funcs) as u32);
        }
        let mut ty2 = ty;
        if edit {
            // identities must be unique: fall back to a unique numeric constant on collision
            let key = format!("{:?}/{}/{:?}", ty, mutable, init);
            if !used_ident.insert(key) || matches!(init, GConst::RefNull(_)) {
                ty2 = VT::I32;
                init = GConst::I32(uniq as i32);
            }
        }
        m.globals.push(GGlobal { ty: ty2, mutable, init });
    }
    let _ = n_gimp;

    // ---------- data / elements (shapes needed by bodies) ----------
    let total_mems = have_imp_mem + m.mems.len();
    let mem_is64 = |m: &GModule, idx: usize| -> bool {
        let mut k = 0;
        for im in &m.imports {
            if let GImportKind::Memory(mt) = &im.kind {
                if k == idx {
                    return mt.is64;
                }
                k += 1;
            }
        }
        m.mems[idx - k].is64
    };
    let n_data = if total_mems > 0 || p.bulk { t.below(4) } else { 0 };
    for _ in 0..n_data {
        let len = t.below(6);
        let bytes = t.bytes(len);
        let active = if total_mems > 0 && (!p.bulk || t.chance(2, 3)) {
            let mi = t.below(total_mems);
            let is64 = mem_is64(&m, mi);
            let off_ty = if is64 { VT::I64 } else { VT::I32 };
            let mut off = if is64 { GConst::I64(t.below(64) as i64) } else { GConst::I32(t.below(64) as i32) };
            if !exec && t.chance(1, 4) {
                if let Some((gi, _, _)) = imp_globals.iter().find(|(_, gt, mu)| *gt == off_ty && !*mu) {
                    off = GConst::GlobalGet(*gi);
                }
            }
            Some((mi as u32, off))
        } else if p.bulk {
            None
        } else {
            continue;
        };
        m.datas.push(GData { active, bytes });
    }
    if p.bulk && (m.datas.iter().any(|d| d.active.is_none()) || t.chance(1, 2)) {
        m.data_count = true;
        feats.insert("bulk");
    }

    // tables info for element segments
    let table_elem = |m: &GModule, idx: usize| -> VT {
        let mut k = 0;
        for im in &m.imports {
            if let GImportKind::Table(tt) = &im.kind {
                if k == idx {
                    return tt.elem;
                }
                k += 1;
            }
        }
        m.tables[idx - k].ty.elem
    };
    let total_tables = m.n_table_imports() + m.tables.len();
    let func_tables: Vec<u32> = (0..total_tables).filter(|&i| table_elem(&m, i) == VT::Func).map(|i| i as u32).collect();
    let n_elems = if total_funcs > 0 { t.below(4) } else { 0 };
    // exec: table functions must be "leaf tier" = first half of the local functions
    let leaf_hi = n_fimp + (n_funcs + 1) / 2;
    for _ in 0..n_elems {
        let n_items = t.range(1, 4);
        let pick_f = |t: &mut Tape| -> u32 {
            if exec {
                t.range(if cfg.host_log { 1 } else { 0 }.min(leaf_hi.saturating_sub(1)), leaf_hi.saturating_sub(1)) as u32
            } else {
                t.below(total_funcs) as u32
            }
        };
        let use_exprs = !exec && p.reftypes && t.chance(1, 3);
        let items = if use_exprs {
            let mut cs = vec![];
            for _ in 0..n_items {
                cs.push(match t.below(4) {
                    0 => GConst::RefNull(VT::Func),
                    1 => {
                        if let Some((gi, _, _)) = imp_globals.iter().find(|(_, gt, mu)| *gt == VT::Func && !*mu) {
                            GConst::GlobalGet(*gi)
                        } else {
                            GConst::RefFunc(pick_f(t))
                        }
                    }
                    _ => GConst::RefFunc(pick_f(t)),
                });
            }
            GElemItems::Exprs(VT::Func, cs)
        } else {
            GElemItems::Funcs((0..n_items).map(|_| pick_f(t)).collect())
        };
        let mode = match t.below(if p.bulk || p.reftypes { 4 } else { 2 }) {
            0 | 1 if !func_tables.is_empty() => {
                let tb = *t.pick(&func_tables);
                let mut offset = GConst::I32(t.below(3) as i32);
                if !exec && t.chance(1, 4) {
                    if let Some((gi, _, _)) = imp_globals.iter().find(|(_, gt, mu)| *gt == VT::I32 && !*mu) {
                        offset = GConst::GlobalGet(*gi);
                    }
                }
                // table index 0 uses the compact encoding unless expressions force the general one
                GElemMode::Active { table: if tb == 0 && t.bool() { None } else { Some(tb) }, offset }
            }
            2 => GElemMode::Passive,
            3 => GElemMode::Declared,
            _ => {
                if p.bulk || p.reftypes {
                    GElemMode::Passive
                } else {
                    continue;
                }
            }
        };
        // active segments need room in the table in exec mode
        m.elems.push(GElem { mode, items });
    }

    // ---------- function bodies ----------
    let shape = Shape::from_module(&m, &func_tys, cfg, leaf_hi, total_funcs);
    for (k, ty) in func_tys.iter().enumerate() {
        let uid = if edit { Some(marker_uid(k)) } else { None };
        let (locals, body) = gen_body(t, &shape, cfg, n_fimp + k, *ty, uid);
        m.funcs.push(GFunc { ty: *ty, locals, body, uid });
    }
    for f in shape.features.borrow().iter() {
        feats.insert(f);
    }
    // functions referenced by ref.func in code must be declared somewhere
    let declared: Vec<u32> = shape.declared.borrow().iter().copied().collect();
    if !declared.is_empty() {
        m.elems.push(GElem { mode: GElemMode::Declared, items: GElemItems::Funcs(declared) });
    }

    // ---------- start ----------
    if !cfg.avoid_start && !exec && total_funcs > 0 && t.chance(1, 4) {
        // any function of type () -> ()
        let mut cands: Vec<u32> = vec![];
        let mut fi = 0u32;
        for im in &m.imports {
            if let GImportKind::Func(ty) = &im.kind {
                if m.types[*ty as usize] == GType::func(vec![], vec![]) {
                    cands.push(fi);
                }
                fi += 1;
            }
        }
        for (k, ty) in func_tys.iter().enumerate() {
            if m.types[*ty as usize] == GType::func(vec![], vec![]) && n_fimp + k < total_funcs {
                cands.push((n_fimp + k) as u32);
            }
        }
        if !cands.is_empty() {
            m.start = Some(*t.pick(&cands));
        }
    }
    let _ = void_ty;

    // ---------- exports ----------
    let mut exp_k = 0;
    if exec {
        for k in 0..n_funcs {
            m.exports.push(GExport { name: format!("e{}", k), kind: we::ExportKind::Func, index: (n_fimp + k) as u32 });
        }
    }
    let n_exp = t.below(5);
    for _ in 0..n_exp {
        let (kind, count) = match t.below(5) {
            0 => (we::ExportKind::Func, total_funcs),
            1 => (we::ExportKind::Global, n_gimp + m.globals.len()),
            2 => (we::ExportKind::Memory, total_mems),
            3 => (we::ExportKind::Table, total_tables),
            _ => (we::ExportKind::Tag, m.n_tag_imports() + m.tags.len()),
        };
        if count == 0 {
            continue;
        }
        let index = t.below(count) as u32;
        if kind == we::ExportKind::Global && !p.threads {
            // exporting mutable globals is fine (mutable-global is standard)
        }
        m.exports.push(GExport { name: format!("x{}", exp_k), kind, index });
        exp_k += 1;
    }

    // ---------- names ----------
    if cfg.names && t.chance(3, 4) {
        let mut n = GNames::default();
        if t.bool() {
            n.module = Some("mod".into());
        }
        let subset = t.chance(1, 4);
        for f in 0..all_funcs {
            if !subset || t.bool() {
                n.funcs.push((f as u32, format!("fn{}", f)));
            }
        }
        for (k, f) in m.funcs.iter().enumerate() {
            let GComposite::Func { params, .. } = &m.types[f.ty as usize].comp else { unreachable!() };
            let total = params.len() + f.locals.len();
            if total > 0 && t.chance(2, 3) {
                let mut inner = vec![];
                for l in 0..total {
                    if t.chance(2, 3) {
                        inner.push((l as u32, format!("l{}_{}", n_fimp + k, l)));
                    }
                }
                if !inner.is_empty() {
                    n.locals.push(((n_fimp + k) as u32, inner));
                }
            }
        }
        if t.chance(1, 3) && !m.funcs.is_empty() {
            n.labels.push((n_fimp as u32, vec![(0, "lbl".into())]));
        }
        if t.chance(1, 2) {
            for (i, _) in m.types.iter().enumerate().take(3) {
                n.types.push((i as u32, format!("ty{}", i)));
            }
        }
        for i in 0..total_tables {
            n.tables.push((i as u32, format!("tb{}", i)));
        }
        for i in 0..total_mems {
            n.mems.push((i as u32, format!("mem{}", i)));
        }
        for i in 0..(n_gimp + m.globals.len()) {
            if !subset || t.bool() {
                n.globals.push((i as u32, format!("g{}", i)));
            }
        }
        for i in 0..m.elems.len() {
            n.elems.push((i as u32, format!("el{}", i)));
        }
        for i in 0..m.datas.len() {
            n.datas.push((i as u32, format!("d{}", i)));
        }
        for &s in &struct_types {
            if let GComposite::Struct { fields } = &m.types[s as usize].comp {
                if !fields.is_empty() {
                    n.fields.push((s, (0..fields.len()).map(|i| (i as u32, format!("fld{}", i))).collect()));
                }
            }
        }
        n.fields.sort();
        for i in 0..(m.n_tag_imports() + m.tags.len()) {
            n.tags.push((i as u32, format!("tag{}", i)));
        }
        m.names = Some(n);
        if !cfg.avoid_early_names && t.chance(1, 24) {
            m.names_early = true;
        }
    }

    // ---------- custom sections ----------
    if cfg.customs {
        let n = t.below(4);
        for _ in 0..n {
            let name = match t.below(8) {
                0 => "producers".to_string(),
                1 => "target_features".to_string(),
                2 => "".to_string(),
                3 => "dup".to_string(),
                4 => "dup".to_string(),
                5 => "linking".to_string(),
                _ => format!("c{}", t.below(10)),
            };
            let len = t.below(8);
            let mut data = t.bytes(len);
            if name == "producers" && t.chance(3, 4) {
                // a well-formed producers payload: 1 field "language" with 1 value ("C","1")
                data = vec![1, 8, b'l', b'a', b'n', b'g', b'u', b'a', b'g', b'e', 1, 1, b'C', 1, b'1'];
            }
            m.customs.push(GCustom { slot: t.below(14) as u8, name, data });
        }
    }
    // ---------- decorative reference types ----------
    // Every abstract heap type in both nullabilities, where no value of the type is ever needed:
    // one unused function type appended behind all others and one unused nullable local at the
    // end of some functions.  Chosen by a hash of what was generated so far, not by tape reads;
    // appended last, so no index and no earlier decision moves.
    if p.gc && !exec {
        let mut h = crate::tape::fnv(format!("{:?}{:?}", m.types.len(), m.funcs.iter().map(|f| (f.ty, f.locals.len(), f.body.len())).collect::<Vec<_>>()).as_bytes());
        let mut next = |n: u64| {
            h = h.wrapping_mul(0x9E37_79B9_7F4A_7C15).rotate_left(17) ^ 0x5bd1_e995;
            (h >> 11) % n
        };
        let mut pick = |next: &mut dyn FnMut(u64) -> u64, want_nullable: bool| loop {
            let k = next(12) as u8;
            // exn / noexn only with the exception profile (and not where exnref is steered away)
            if k >= 10 && (!p.exn || cfg.avoid_exnref) {
                continue;
            }
            break VT::Abs(k, want_nullable || next(2) == 0);
        };
        if next(3) != 0 {
            let np = 1 + next(3) as usize;
            let params: Vec<VT> = (0..np).map(|_| pick(&mut next, false)).collect();
            let results: Vec<VT> = (0..next(2) as usize).map(|_| pick(&mut next, false)).collect();
            m.types.push(GType::func(params, results));
            m.groups.push(GRecGroup { explicit: false, len: 1 });
            feats.insert("gc");
        }
        for f in m.funcs.iter_mut() {
            if next(3) == 0 {
                f.locals.push(pick(&mut next, true));
            }
        }
    }
    m.features_used = feats.into_iter().collect();
    m
}
