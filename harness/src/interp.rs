//! Reference interpreter for the G-exec subset, with a native probe monitor.
//!
//! Written for this harness; shares no code with the library under test.  It executes
//! validated modules decoded with wasmparser.  When a `Plan` is attached (original module) it
//! records, from the dynamic semantics alone, the probe events C16-C20 require, each stamped
//! with a *moment* (a fresh number per instruction start and per instruction completion);
//! events of one moment are unordered among themselves.  Without a plan (instrumented module)
//! the only event source is the imported `host.log`.

use std::collections::HashMap;
use wasmparser::{BlockType, Operator, Parser, Payload, ValType};

#[derive(Clone, Copy, Debug, PartialEq)]
pub enum Val {
    I32(i32),
    I64(i64),
    F32(u32),
    F64(u64),
    /// funcref (function index) / externref (always null here)
    Ref(Option<u32>),
}

impl Val {
    pub fn default_for(t: ValType) -> Val {
        match t {
            ValType::I32 => Val::I32(0),
            ValType::I64 => Val::I64(0),
            ValType::F32 => Val::F32(0),
            ValType::F64 => Val::F64(0),
            _ => Val::Ref(None),
        }
    }
}

#[derive(Clone, Debug, PartialEq)]
pub enum Stop {
    Trap(&'static str),
    Exception(u32),
    OutOfBudget,
    Unsupported(String),
}

#[derive(Clone, Copy, Debug, PartialEq, Eq, Hash, PartialOrd, Ord)]
pub enum EvKind {
    Before,
    After,
    FuncEntry,
    FuncExit,
    BlockEntry,
    BlockExit,
    SemAfter,
}

/// Probe plan on the *original* module: (function, instruction) -> probes.  Function-level
/// probes are keyed with instruction 0.
#[derive(Default, Clone)]
pub struct Plan {
    pub at: HashMap<(u32, usize, EvKind), Vec<i32>>,
}
impl Plan {
    pub fn add(&mut self, f: u32, pc: usize, k: EvKind, id: i32) {
        self.at.entry((f, pc, k)).or_default().push(id);
    }
}

pub struct FuncCode<'a> {
    pub ty: u32,
    pub locals: Vec<ValType>,
    pub ops: Vec<Operator<'a>>,
    /// for Block/Loop/If: pc of the matching end; for Else/End: pc of the opener
    pub partner: Vec<usize>,
    /// for If: pc of its else (usize::MAX if none)
    pub else_of: Vec<usize>,
}

pub enum Func<'a> {
    HostLog,
    HostOther(u32),
    Local(FuncCode<'a>),
}

pub struct Prog<'a> {
    pub types: Vec<(Vec<ValType>, Vec<ValType>)>,
    pub funcs: Vec<Func<'a>>,
    pub func_types: Vec<u32>,
    pub globals: Vec<(ValType, bool, GInit<'a>)>,
    pub mems: Vec<(u64, Option<u64>)>,
    pub tables: Vec<(u64, Option<u64>)>,
    pub tags: Vec<u32>,
    pub exports: Vec<(String, u32)>,
    pub start: Option<u32>,
    pub elems: Vec<(Option<(u32, Vec<Operator<'a>>)>, Vec<Option<u32>>)>,
    pub datas: Vec<(Option<(u32, Vec<Operator<'a>>)>, &'a [u8])>,
    pub n_func_imports: u32,
}

pub enum GInit<'a> {
    Import(u32),
    Expr(Vec<Operator<'a>>),
}

fn const_ops<'a>(e: &wasmparser::ConstExpr<'a>) -> Result<Vec<Operator<'a>>, String> {
    let mut v = vec![];
    let mut r = e.get_operators_reader();
    while !r.eof() {
        let op = r.read().map_err(|e| e.to_string())?;
        if matches!(op, Operator::End) && r.eof() {
            break;
        }
        v.push(op);
    }
    Ok(v)
}

pub fn load<'a>(bytes: &'a [u8]) -> Result<Prog<'a>, String> {
    let mut p = Prog {
        types: vec![],
        funcs: vec![],
        func_types: vec![],
        globals: vec![],
        mems: vec![],
        tables: vec![],
        tags: vec![],
        exports: vec![],
        start: None,
        elems: vec![],
        datas: vec![],
        n_func_imports: 0,
    };
    let mut local_types: Vec<u32> = vec![];
    let mut gi = 0u32;
    for payload in Parser::new(0).parse_all(bytes) {
        match payload.map_err(|e| e.to_string())? {
            Payload::TypeSection(r) => {
                for rg in r {
                    for st in rg.map_err(|e| e.to_string())?.into_types() {
                        match &st.composite_type.inner {
                            wasmparser::CompositeInnerType::Func(f) => p.types.push((f.params().to_vec(), f.results().to_vec())),
                            _ => p.types.push((vec![], vec![])),
                        }
                    }
                }
            }
            Payload::ImportSection(r) => {
                for i in r {
                    let i = i.map_err(|e| e.to_string())?;
                    match i.ty {
                        wasmparser::TypeRef::Func(t) => {
                            let k = p.funcs.len() as u32;
                            p.funcs.push(if i.module == "host" && i.name == "log" { Func::HostLog } else { Func::HostOther(k) });
                            p.func_types.push(t);
                            p.n_func_imports += 1;
                        }
                        wasmparser::TypeRef::Global(g) => {
                            p.globals.push((g.content_type, g.mutable, GInit::Import(gi)));
                            gi += 1;
                        }
                        wasmparser::TypeRef::Memory(m) => p.mems.push((m.initial, m.maximum)),
                        wasmparser::TypeRef::Table(t) => p.tables.push((t.initial, t.maximum)),
                        wasmparser::TypeRef::Tag(t) => p.tags.push(t.func_type_idx),
                    }
                }
            }
            Payload::FunctionSection(r) => {
                for t in r {
                    local_types.push(t.map_err(|e| e.to_string())?);
                }
            }
            Payload::TableSection(r) => {
                for t in r {
                    let t = t.map_err(|e| e.to_string())?;
                    p.tables.push((t.ty.initial, t.ty.maximum));
                }
            }
            Payload::MemorySection(r) => {
                for m in r {
                    let m = m.map_err(|e| e.to_string())?;
                    p.mems.push((m.initial, m.maximum));
                }
            }
            Payload::TagSection(r) => {
                for t in r {
                    p.tags.push(t.map_err(|e| e.to_string())?.func_type_idx);
                }
            }
            Payload::GlobalSection(r) => {
                for g in r {
                    let g = g.map_err(|e| e.to_string())?;
                    p.globals.push((g.ty.content_type, g.ty.mutable, GInit::Expr(const_ops(&g.init_expr)?)));
                }
            }
            Payload::ExportSection(r) => {
                for e in r {
                    let e = e.map_err(|e| e.to_string())?;
                    if e.kind == wasmparser::ExternalKind::Func {
                        p.exports.push((e.name.to_string(), e.index));
                    }
                }
            }
            Payload::StartSection { func, .. } => p.start = Some(func),
            Payload::ElementSection(r) => {
                for e in r {
                    let e = e.map_err(|e| e.to_string())?;
                    let mut items = vec![];
                    match e.items {
                        wasmparser::ElementItems::Functions(fs) => {
                            for f in fs {
                                items.push(Some(f.map_err(|e| e.to_string())?));
                            }
                        }
                        wasmparser::ElementItems::Expressions(_, es) => {
                            for x in es {
                                let ops = const_ops(&x.map_err(|e| e.to_string())?)?;
                                items.push(match ops.first() {
                                    Some(Operator::RefFunc { function_index }) => Some(*function_index),
                                    _ => None,
                                });
                            }
                        }
                    }
                    let kind = match e.kind {
                        wasmparser::ElementKind::Active { table_index, offset_expr } => Some((table_index.unwrap_or(0), const_ops(&offset_expr)?)),
                        _ => None,
                    };
                    p.elems.push((kind, items));
                }
            }
            Payload::DataSection(r) => {
                for d in r {
                    let d = d.map_err(|e| e.to_string())?;
                    let kind = match d.kind {
                        wasmparser::DataKind::Active { memory_index, offset_expr } => Some((memory_index, const_ops(&offset_expr)?)),
                        wasmparser::DataKind::Passive => None,
                    };
                    p.datas.push((kind, d.data));
                }
            }
            Payload::CodeSectionEntry(body) => {
                let mut locals = vec![];
                for l in body.get_locals_reader().map_err(|e| e.to_string())? {
                    let (n, t) = l.map_err(|e| e.to_string())?;
                    for _ in 0..n {
                        locals.push(t);
                    }
                }
                let mut ops = vec![];
                let mut r = body.get_operators_reader().map_err(|e| e.to_string())?;
                while !r.eof() {
                    ops.push(r.read().map_err(|e| e.to_string())?);
                }
                let n = ops.len();
                let mut partner = vec![usize::MAX; n];
                let mut else_of = vec![usize::MAX; n];
                let mut stack: Vec<usize> = vec![];
                for (i, op) in ops.iter().enumerate() {
                    match op {
                        Operator::Block { .. } | Operator::Loop { .. } | Operator::If { .. } => stack.push(i),
                        Operator::TryTable { .. } | Operator::Try { .. } => return Err("try blocks are outside the interpreted subset".into()),
                        Operator::Else => {
                            if let Some(o) = stack.last() {
                                else_of[*o] = i;
                                partner[i] = *o;
                            }
                        }
                        Operator::End => {
                            if let Some(o) = stack.pop() {
                                partner[o] = i;
                                partner[i] = o;
                            }
                        }
                        _ => {}
                    }
                }
                let k = local_types.get(p.funcs.len() - p.n_func_imports as usize).copied().ok_or("code without function entry")?;
                p.func_types.push(k);
                p.funcs.push(Func::Local(FuncCode { ty: k, locals, ops, partner, else_of }));
            }
            _ => {}
        }
    }
    Ok(p)
}

struct Ctl {
    /// pc of the opening instruction, usize::MAX for the function body
    opener: usize,
    is_loop: bool,
    height: usize,
    br_arity: usize,
    end_pc: usize,
}

pub struct Machine<'p, 'a> {
    pub prog: &'p Prog<'a>,
    pub globals: Vec<Val>,
    pub mems: Vec<Vec<u8>>,
    pub tables: Vec<Vec<Option<u32>>>,
    pub dropped_data: Vec<bool>,
    /// host.log trace (actual events of an instrumented run, generated calls of the original)
    pub log: Vec<i32>,
    /// monitor output: (moment, probe id)
    pub expected: Vec<(u64, i32)>,
    pub plan: Option<&'p Plan>,
    pub moment: u64,
    pub steps: u64,
    pub budget: u64,
    pub depth: u32,
    /// statistics for non-triviality rules
    pub taken_branches: u64,
    pub calls: u64,
    pub fired: HashMap<EvKind, u64>,
    pub exit_kinds: HashMap<(u32, &'static str), u64>,
    pub fired_sites: HashMap<(u32, usize, EvKind), u64>,
    /// constructs (function, opener pc) that were left by a taken branch at least once
    pub left_by_branch: std::collections::HashSet<(u32, usize)>,
    /// (function, opener pc) -> causes of arriving behind the construct: pc of a taken branch,
    /// or usize::MAX for falling through its end / else
    pub arrivals: HashMap<(u32, usize), std::collections::BTreeSet<usize>>,
    pub loop_iterations: HashMap<(u32, usize), u64>,
}

const MAX_PAGES: u64 = 24;

enum FrameEnd {
    Return(Vec<Val>),
    Tail(u32, Vec<Val>),
}

impl<'p, 'a> Machine<'p, 'a> {
    pub fn instantiate(prog: &'p Prog<'a>, plan: Option<&'p Plan>, budget: u64) -> Result<Machine<'p, 'a>, Stop> {
        let mut m = Machine {
            prog,
            globals: vec![],
            mems: vec![],
            tables: vec![],
            dropped_data: vec![false; prog.datas.len()],
            log: vec![],
            expected: vec![],
            plan,
            moment: 0,
            steps: 0,
            budget,
            depth: 0,
            taken_branches: 0,
            calls: 0,
            fired: HashMap::new(),
            exit_kinds: HashMap::new(),
            fired_sites: HashMap::new(),
            left_by_branch: Default::default(),
            arrivals: HashMap::new(),
            loop_iterations: HashMap::new(),
        };
        for (ty, _, init) in &prog.globals {
            let v = match init {
                GInit::Import(k) => match ty {
                    ValType::I32 => Val::I32(3 + *k as i32),
                    ValType::I64 => Val::I64(5 + *k as i64),
                    ValType::F32 => Val::F32((1.5f32 + *k as f32).to_bits()),
                    ValType::F64 => Val::F64((2.5f64 + *k as f64).to_bits()),
                    _ => Val::Ref(None),
                },
                GInit::Expr(ops) => m.eval_const(ops)?,
            };
            m.globals.push(v);
        }
        for (init, _) in &prog.mems {
            m.mems.push(vec![0u8; (*init).min(MAX_PAGES) as usize * 65536]);
        }
        for (init, _) in &prog.tables {
            m.tables.push(vec![None; (*init).min(4096) as usize]);
        }
        for (kind, items) in &prog.elems {
            if let Some((t, off)) = kind {
                let o = match m.eval_const(off)? {
                    Val::I32(x) => x as u32 as usize,
                    Val::I64(x) => x as usize,
                    _ => 0,
                };
                let tb = m.tables.get_mut(*t as usize).ok_or(Stop::Trap("unknown table"))?;
                if o + items.len() > tb.len() {
                    return Err(Stop::Trap("out of bounds table access (element segment)"));
                }
                for (k, it) in items.iter().enumerate() {
                    tb[o + k] = *it;
                }
            }
        }
        for (k, (kind, data)) in prog.datas.iter().enumerate() {
            if let Some((mi, off)) = kind {
                let o = match m.eval_const(off)? {
                    Val::I32(x) => x as u32 as usize,
                    Val::I64(x) => x as usize,
                    _ => 0,
                };
                let mem = m.mems.get_mut(*mi as usize).ok_or(Stop::Trap("unknown memory"))?;
                if o + data.len() > mem.len() {
                    return Err(Stop::Trap("out of bounds memory access (data segment)"));
                }
                mem[o..o + data.len()].copy_from_slice(data);
                m.dropped_data[k] = true;
            }
        }
        if let Some(s) = prog.start {
            m.call(s, vec![])?;
        }
        Ok(m)
    }

    fn eval_const(&self, ops: &[Operator]) -> Result<Val, Stop> {
        match ops.first() {
            Some(Operator::I32Const { value }) => Ok(Val::I32(*value)),
            Some(Operator::I64Const { value }) => Ok(Val::I64(*value)),
            Some(Operator::F32Const { value }) => Ok(Val::F32(value.bits())),
            Some(Operator::F64Const { value }) => Ok(Val::F64(value.bits())),
            Some(Operator::GlobalGet { global_index }) => self.globals.get(*global_index as usize).copied().ok_or(Stop::Trap("unknown global")),
            Some(Operator::RefNull { .. }) => Ok(Val::Ref(None)),
            Some(Operator::RefFunc { function_index }) => Ok(Val::Ref(Some(*function_index))),
            other => Err(Stop::Unsupported(format!("const expr {:?}", other))),
        }
    }

    fn emit(&mut self, f: u32, pc: usize, k: EvKind) {
        if let Some(p) = self.plan {
            if let Some(ids) = p.at.get(&(f, pc, k)) {
                for id in ids {
                    self.expected.push((self.moment, *id));
                }
                *self.fired.entry(k).or_default() += ids.len() as u64;
                *self.fired_sites.entry((f, pc, k)).or_default() += 1;
            }
        }
    }
    fn tick(&mut self) {
        self.moment += 1;
    }

    pub fn call(&mut self, f: u32, args: Vec<Val>) -> Result<Vec<Val>, Stop> {
        let (mut f, mut args) = (f, args);
        self.depth += 1;
        if self.depth > 200 {
            self.depth -= 1;
            return Err(Stop::Trap("call stack exhausted"));
        }
        let r = loop {
            match &self.prog.funcs[f as usize] {
                Func::HostLog => {
                    let v = match args.first() {
                        Some(Val::I32(x)) => *x,
                        _ => 0,
                    };
                    self.log.push(v);
                    if self.plan.is_some() {
                        // a generated call of host.log in the original program: part of the expected trace
                        self.tick();
                        self.expected.push((self.moment, v));
                        self.tick();
                    }
                    break Ok(vec![]);
                }
                Func::HostOther(_) => {
                    let (_, res) = &self.prog.types[self.prog.func_types[f as usize] as usize];
                    break Ok(res.iter().map(|t| Val::default_for(*t)).collect());
                }
                Func::Local(code) => match self.frame(f, code, args) {
                    Ok(FrameEnd::Return(v)) => break Ok(v),
                    Ok(FrameEnd::Tail(g, a)) => {
                        f = g;
                        args = a;
                        continue;
                    }
                    Err(e) => break Err(e),
                },
            }
        };
        self.depth -= 1;
        r
    }

    fn block_arity(&self, bt: &BlockType) -> (usize, usize) {
        match bt {
            BlockType::Empty => (0, 0),
            BlockType::Type(_) => (0, 1),
            BlockType::FuncType(i) => {
                let (p, r) = &self.prog.types[*i as usize];
                (p.len(), r.len())
            }
        }
    }

    fn frame(&mut self, f: u32, code: &'p FuncCode<'a>, args: Vec<Val>) -> Result<FrameEnd, Stop> {
        let (_, results) = &self.prog.types[code.ty as usize];
        let n_res = results.len();
        let mut locals = args;
        for t in &code.locals {
            locals.push(Val::default_for(*t));
        }
        let mut stack: Vec<Val> = Vec::with_capacity(16);
        let last = code.ops.len() - 1;
        let mut ctls: Vec<Ctl> = vec![Ctl { opener: usize::MAX, is_loop: false, height: 0, br_arity: n_res, end_pc: last }];
        let mut pc = 0usize;
        macro_rules! pop {
            () => {
                stack.pop().ok_or(Stop::Unsupported("stack underflow".into()))?
            };
        }
        macro_rules! pop_i32 {
            () => {
                match pop!() {
                    Val::I32(x) => x,
                    v => return Err(Stop::Unsupported(format!("expected i32, got {:?}", v))),
                }
            };
        }
        macro_rules! pop_i64 {
            () => {
                match pop!() {
                    Val::I64(x) => x,
                    v => return Err(Stop::Unsupported(format!("expected i64, got {:?}", v))),
                }
            };
        }
        macro_rules! pop_f32 {
            () => {
                match pop!() {
                    Val::F32(x) => f32::from_bits(x),
                    v => return Err(Stop::Unsupported(format!("expected f32, got {:?}", v))),
                }
            };
        }
        macro_rules! pop_f64 {
            () => {
                match pop!() {
                    Val::F64(x) => f64::from_bits(x),
                    v => return Err(Stop::Unsupported(format!("expected f64, got {:?}", v))),
                }
            };
        }
        macro_rules! bin {
            ($pop:ident, $wrap:expr, |$a:ident, $b:ident| $e:expr) => {{
                let $b = $pop!();
                let $a = $pop!();
                stack.push($wrap($e));
            }};
        }
        macro_rules! un {
            ($pop:ident, $wrap:expr, |$a:ident| $e:expr) => {{
                let $a = $pop!();
                stack.push($wrap($e));
            }};
        }
        let i32v = |x: i32| Val::I32(x);
        let i64v = |x: i64| Val::I64(x);
        let f32v = |x: f32| Val::F32(x.to_bits());
        let f64v = |x: f64| Val::F64(x.to_bits());
        let boolv = |b: bool| Val::I32(b as i32);

        loop {
            self.steps += 1;
            if self.steps > self.budget {
                return Err(Stop::OutOfBudget);
            }
            let op = &code.ops[pc];
            // ---------------- instruction start: moment A
            self.tick();
            if pc == 0 {
                self.emit(f, 0, EvKind::FuncEntry);
            }
            self.emit(f, pc, EvKind::Before);
            match op {
                Operator::Return | Operator::ReturnCall { .. } | Operator::ReturnCallIndirect { .. } | Operator::Unreachable | Operator::Throw { .. } => {
                    self.emit(f, 0, EvKind::FuncExit);
                    let kind = match op {
                        Operator::Return => "return",
                        Operator::ReturnCall { .. } | Operator::ReturnCallIndirect { .. } => "tail_call",
                        Operator::Unreachable => "unreachable",
                        _ => "throw",
                    };
                    *self.exit_kinds.entry((f, kind)).or_default() += 1;
                }
                Operator::End => {
                    if pc == last {
                        self.emit(f, 0, EvKind::FuncExit);
                        *self.exit_kinds.entry((f, "fall_off_end")).or_default() += 1;
                    } else {
                        let o = code.partner[pc];
                        match &code.ops[o] {
                            Operator::If { .. } => {
                                let e = code.else_of[o];
                                if e != usize::MAX {
                                    self.emit(f, e, EvKind::BlockExit);
                                } else {
                                    self.emit(f, o, EvKind::BlockExit);
                                }
                            }
                            _ => self.emit(f, o, EvKind::BlockExit),
                        }
                    }
                }
                Operator::Else => {
                    let o = code.partner[pc];
                    self.emit(f, o, EvKind::BlockExit);
                }
                _ => {}
            }
            // ---------------- execute
            // `next` = Some(pc') for sequential continuation / structured jumps inside the frame
            let mut fallthrough = true; // completed without branching away (After fires)
            let mut branch_to: Option<u32> = None; // taken branch with this relative depth
            match op {
                Operator::Nop => {}
                Operator::Unreachable => return Err(Stop::Trap("unreachable")),
                Operator::Block { blockty } => {
                    let (p, r) = self.block_arity(blockty);
                    ctls.push(Ctl { opener: pc, is_loop: false, height: stack.len() - p, br_arity: r, end_pc: code.partner[pc] });
                    fallthrough = false;
                    self.tick();
                    self.emit(f, pc, EvKind::BlockEntry);
                    pc += 1;
                    continue;
                }
                Operator::Loop { blockty } => {
                    let (p, _) = self.block_arity(blockty);
                    ctls.push(Ctl { opener: pc, is_loop: true, height: stack.len() - p, br_arity: p, end_pc: code.partner[pc] });
                    self.tick();
                    self.emit(f, pc, EvKind::BlockEntry);
                    *self.loop_iterations.entry((f, pc)).or_default() += 1;
                    pc += 1;
                    continue;
                }
                Operator::If { blockty } => {
                    let c = pop_i32!();
                    let (p, r) = self.block_arity(blockty);
                    let end = code.partner[pc];
                    let els = code.else_of[pc];
                    self.tick();
                    if c != 0 {
                        ctls.push(Ctl { opener: pc, is_loop: false, height: stack.len() - p, br_arity: r, end_pc: end });
                        self.emit(f, pc, EvKind::BlockEntry);
                        pc += 1;
                    } else if els != usize::MAX {
                        ctls.push(Ctl { opener: pc, is_loop: false, height: stack.len() - p, br_arity: r, end_pc: end });
                        self.emit(f, els, EvKind::BlockEntry);
                        pc = els + 1;
                    } else {
                        // no else-arm: control continues behind the construct
                        self.arrivals.entry((f, pc)).or_default().insert(usize::MAX);
                        self.emit(f, pc, EvKind::SemAfter);
                        pc = end + 1;
                    }
                    continue;
                }
                Operator::Else => {
                    // the then-arm fell through: continue behind the construct
                    let o = code.partner[pc];
                    let c = ctls.pop().ok_or(Stop::Unsupported("control underflow".into()))?;
                    self.tick();
                    self.arrivals.entry((f, o)).or_default().insert(usize::MAX);
                    self.emit(f, o, EvKind::SemAfter);
                    self.emit(f, pc, EvKind::SemAfter);
                    pc = c.end_pc + 1;
                    continue;
                }
                Operator::End => {
                    if pc == last {
                        let n = stack.len();
                        let vals = stack.split_off(n - n_res);
                        return Ok(FrameEnd::Return(vals));
                    }
                    let o = code.partner[pc];
                    ctls.pop();
                    self.tick();
                    self.arrivals.entry((f, o)).or_default().insert(usize::MAX);
                    match &code.ops[o] {
                        Operator::Loop { .. } => {}
                        Operator::If { .. } => {
                            self.emit(f, o, EvKind::SemAfter);
                            let e = code.else_of[o];
                            if e != usize::MAX {
                                self.emit(f, e, EvKind::SemAfter);
                            }
                        }
                        _ => self.emit(f, o, EvKind::SemAfter),
                    }
                    pc += 1;
                    continue;
                }
                Operator::Br { relative_depth } => branch_to = Some(*relative_depth),
                Operator::BrIf { relative_depth } => {
                    if pop_i32!() != 0 {
                        branch_to = Some(*relative_depth);
                    }
                }
                Operator::BrTable { targets } => {
                    let i = pop_i32!() as u32;
                    let mut d = targets.default();
                    for (k, t) in targets.targets().enumerate() {
                        if k as u32 == i {
                            d = t.map_err(|e| Stop::Unsupported(e.to_string()))?;
                            break;
                        }
                    }
                    branch_to = Some(d);
                }
                Operator::BrOnNull { relative_depth } => match pop!() {
                    Val::Ref(None) => branch_to = Some(*relative_depth),
                    v => stack.push(v),
                },
                Operator::BrOnNonNull { relative_depth } => match pop!() {
                    Val::Ref(None) => {}
                    v => {
                        stack.push(v);
                        branch_to = Some(*relative_depth);
                    }
                },
                Operator::Return => {
                    let n = stack.len();
                    let vals = stack.split_off(n - n_res);
                    return Ok(FrameEnd::Return(vals));
                }
                Operator::Call { function_index } => {
                    let (p, _) = &self.prog.types[self.prog.func_types[*function_index as usize] as usize];
                    let n = stack.len();
                    let args = stack.split_off(n - p.len());
                    self.calls += 1;
                    let r = self.call(*function_index, args)?;
                    stack.extend(r);
                }
                Operator::CallIndirect { type_index, table_index } => {
                    let i = pop_i32!() as u32 as usize;
                    let g = self.resolve_indirect(*table_index, i, *type_index)?;
                    let (p, _) = &self.prog.types[*type_index as usize];
                    let n = stack.len();
                    let args = stack.split_off(n - p.len());
                    self.calls += 1;
                    let r = self.call(g, args)?;
                    stack.extend(r);
                }
                Operator::ReturnCall { function_index } => {
                    let (p, _) = &self.prog.types[self.prog.func_types[*function_index as usize] as usize];
                    let n = stack.len();
                    let args = stack.split_off(n - p.len());
                    self.calls += 1;
                    return Ok(FrameEnd::Tail(*function_index, args));
                }
                Operator::ReturnCallIndirect { type_index, table_index } => {
                    let i = pop_i32!() as u32 as usize;
                    let g = self.resolve_indirect(*table_index, i, *type_index)?;
                    let (p, _) = &self.prog.types[*type_index as usize];
                    let n = stack.len();
                    let args = stack.split_off(n - p.len());
                    self.calls += 1;
                    return Ok(FrameEnd::Tail(g, args));
                }
                Operator::Throw { tag_index } => return Err(Stop::Exception(*tag_index)),
                Operator::Drop => {
                    pop!();
                }
                Operator::Select | Operator::TypedSelect { .. } => {
                    let c = pop_i32!();
                    let b = pop!();
                    let a = pop!();
                    stack.push(if c != 0 { a } else { b });
                }
                Operator::LocalGet { local_index } => stack.push(locals[*local_index as usize]),
                Operator::LocalSet { local_index } => locals[*local_index as usize] = pop!(),
                Operator::LocalTee { local_index } => {
                    let v = pop!();
                    locals[*local_index as usize] = v;
                    stack.push(v);
                }
                Operator::GlobalGet { global_index } => stack.push(self.globals[*global_index as usize]),
                Operator::GlobalSet { global_index } => self.globals[*global_index as usize] = pop!(),
                Operator::RefNull { .. } => stack.push(Val::Ref(None)),
                Operator::RefFunc { function_index } => stack.push(Val::Ref(Some(*function_index))),
                Operator::RefIsNull => {
                    let v = pop!();
                    stack.push(boolv(matches!(v, Val::Ref(None))));
                }
                Operator::RefAsNonNull => {
                    let v = pop!();
                    if matches!(v, Val::Ref(None)) {
                        return Err(Stop::Trap("null reference"));
                    }
                    stack.push(v);
                }
                Operator::I32Const { value } => stack.push(Val::I32(*value)),
                Operator::I64Const { value } => stack.push(Val::I64(*value)),
                Operator::F32Const { value } => stack.push(Val::F32(value.bits())),
                Operator::F64Const { value } => stack.push(Val::F64(value.bits())),
                // ---- memory
                Operator::MemorySize { mem } => {
                    let pages = (self.mems[*mem as usize].len() / 65536) as i32;
                    stack.push(Val::I32(pages));
                }
                Operator::MemoryGrow { mem } => {
                    let d = pop_i32!() as u32 as u64;
                    let cur = (self.mems[*mem as usize].len() / 65536) as u64;
                    let max = self.prog.mems[*mem as usize].1.unwrap_or(65536).min(MAX_PAGES);
                    if cur + d > max {
                        stack.push(Val::I32(-1));
                    } else {
                        self.mems[*mem as usize].resize(((cur + d) * 65536) as usize, 0);
                        stack.push(Val::I32(cur as i32));
                    }
                }
                Operator::MemoryFill { mem } => {
                    let n = pop_i32!() as u32 as usize;
                    let v = pop_i32!() as u8;
                    let d = pop_i32!() as u32 as usize;
                    let m = &mut self.mems[*mem as usize];
                    if d.checked_add(n).map(|e| e > m.len()).unwrap_or(true) {
                        return Err(Stop::Trap("out of bounds memory access"));
                    }
                    m[d..d + n].fill(v);
                }
                Operator::MemoryCopy { dst_mem, src_mem } => {
                    let n = pop_i32!() as u32 as usize;
                    let s = pop_i32!() as u32 as usize;
                    let d = pop_i32!() as u32 as usize;
                    let sl = self.mems[*src_mem as usize].len();
                    let dl = self.mems[*dst_mem as usize].len();
                    if s.checked_add(n).map(|e| e > sl).unwrap_or(true) || d.checked_add(n).map(|e| e > dl).unwrap_or(true) {
                        return Err(Stop::Trap("out of bounds memory access"));
                    }
                    let tmp = self.mems[*src_mem as usize][s..s + n].to_vec();
                    self.mems[*dst_mem as usize][d..d + n].copy_from_slice(&tmp);
                }
                Operator::MemoryInit { data_index, mem } => {
                    let n = pop_i32!() as u32 as usize;
                    let s = pop_i32!() as u32 as usize;
                    let d = pop_i32!() as u32 as usize;
                    let data: &[u8] = if self.dropped_data[*data_index as usize] { &[] } else { self.prog.datas[*data_index as usize].1 };
                    let m = &mut self.mems[*mem as usize];
                    if s.checked_add(n).map(|e| e > data.len()).unwrap_or(true) || d.checked_add(n).map(|e| e > m.len()).unwrap_or(true) {
                        return Err(Stop::Trap("out of bounds memory access"));
                    }
                    m[d..d + n].copy_from_slice(&data[s..s + n]);
                }
                Operator::DataDrop { data_index } => self.dropped_data[*data_index as usize] = true,
                Operator::I32Load { memarg } => {
                    let b = self.load::<4>(memarg, pop_i32!())?;
                    stack.push(Val::I32(i32::from_le_bytes(b)))
                }
                Operator::I64Load { memarg } => {
                    let b = self.load::<8>(memarg, pop_i32!())?;
                    stack.push(Val::I64(i64::from_le_bytes(b)))
                }
                Operator::F32Load { memarg } => {
                    let b = self.load::<4>(memarg, pop_i32!())?;
                    stack.push(Val::F32(u32::from_le_bytes(b)))
                }
                Operator::F64Load { memarg } => {
                    let b = self.load::<8>(memarg, pop_i32!())?;
                    stack.push(Val::F64(u64::from_le_bytes(b)))
                }
                Operator::I32Load8S { memarg } => {
                    let b = self.load::<1>(memarg, pop_i32!())?;
                    stack.push(Val::I32(b[0] as i8 as i32))
                }
                Operator::I32Load8U { memarg } => {
                    let b = self.load::<1>(memarg, pop_i32!())?;
                    stack.push(Val::I32(b[0] as i32))
                }
                Operator::I32Load16S { memarg } => {
                    let b = self.load::<2>(memarg, pop_i32!())?;
                    stack.push(Val::I32(i16::from_le_bytes(b) as i32))
                }
                Operator::I32Load16U { memarg } => {
                    let b = self.load::<2>(memarg, pop_i32!())?;
                    stack.push(Val::I32(u16::from_le_bytes(b) as i32))
                }
                Operator::I64Load8S { memarg } => {
                    let b = self.load::<1>(memarg, pop_i32!())?;
                    stack.push(Val::I64(b[0] as i8 as i64))
                }
                Operator::I64Load8U { memarg } => {
                    let b = self.load::<1>(memarg, pop_i32!())?;
                    stack.push(Val::I64(b[0] as i64))
                }
                Operator::I64Load16S { memarg } => {
                    let b = self.load::<2>(memarg, pop_i32!())?;
                    stack.push(Val::I64(i16::from_le_bytes(b) as i64))
                }
                Operator::I64Load16U { memarg } => {
                    let b = self.load::<2>(memarg, pop_i32!())?;
                    stack.push(Val::I64(u16::from_le_bytes(b) as i64))
                }
                Operator::I64Load32S { memarg } => {
                    let b = self.load::<4>(memarg, pop_i32!())?;
                    stack.push(Val::I64(i32::from_le_bytes(b) as i64))
                }
                Operator::I64Load32U { memarg } => {
                    let b = self.load::<4>(memarg, pop_i32!())?;
                    stack.push(Val::I64(u32::from_le_bytes(b) as i64))
                }
                Operator::I32Store { memarg } => {
                    let v = pop_i32!();
                    self.store(memarg, pop_i32!(), &v.to_le_bytes())?
                }
                Operator::I64Store { memarg } => {
                    let v = pop_i64!();
                    self.store(memarg, pop_i32!(), &v.to_le_bytes())?
                }
                Operator::F32Store { memarg } => {
                    let v = pop_f32!();
                    self.store(memarg, pop_i32!(), &v.to_bits().to_le_bytes())?
                }
                Operator::F64Store { memarg } => {
                    let v = pop_f64!();
                    self.store(memarg, pop_i32!(), &v.to_bits().to_le_bytes())?
                }
                Operator::I32Store8 { memarg } => {
                    let v = pop_i32!();
                    self.store(memarg, pop_i32!(), &v.to_le_bytes()[..1])?
                }
                Operator::I32Store16 { memarg } => {
                    let v = pop_i32!();
                    self.store(memarg, pop_i32!(), &v.to_le_bytes()[..2])?
                }
                Operator::I64Store8 { memarg } => {
                    let v = pop_i64!();
                    self.store(memarg, pop_i32!(), &v.to_le_bytes()[..1])?
                }
                Operator::I64Store16 { memarg } => {
                    let v = pop_i64!();
                    self.store(memarg, pop_i32!(), &v.to_le_bytes()[..2])?
                }
                Operator::I64Store32 { memarg } => {
                    let v = pop_i64!();
                    self.store(memarg, pop_i32!(), &v.to_le_bytes()[..4])?
                }
                // ---- i32
                Operator::I32Eqz => un!(pop_i32, boolv, |a| a == 0),
                Operator::I32Eq => bin!(pop_i32, boolv, |a, b| a == b),
                Operator::I32Ne => bin!(pop_i32, boolv, |a, b| a != b),
                Operator::I32LtS => bin!(pop_i32, boolv, |a, b| a < b),
                Operator::I32LtU => bin!(pop_i32, boolv, |a, b| (a as u32) < (b as u32)),
                Operator::I32GtS => bin!(pop_i32, boolv, |a, b| a > b),
                Operator::I32GtU => bin!(pop_i32, boolv, |a, b| (a as u32) > (b as u32)),
                Operator::I32LeS => bin!(pop_i32, boolv, |a, b| a <= b),
                Operator::I32LeU => bin!(pop_i32, boolv, |a, b| (a as u32) <= (b as u32)),
                Operator::I32GeS => bin!(pop_i32, boolv, |a, b| a >= b),
                Operator::I32GeU => bin!(pop_i32, boolv, |a, b| (a as u32) >= (b as u32)),
                Operator::I32Clz => un!(pop_i32, i32v, |a| a.leading_zeros() as i32),
                Operator::I32Ctz => un!(pop_i32, i32v, |a| a.trailing_zeros() as i32),
                Operator::I32Popcnt => un!(pop_i32, i32v, |a| a.count_ones() as i32),
                Operator::I32Add => bin!(pop_i32, i32v, |a, b| a.wrapping_add(b)),
                Operator::I32Sub => bin!(pop_i32, i32v, |a, b| a.wrapping_sub(b)),
                Operator::I32Mul => bin!(pop_i32, i32v, |a, b| a.wrapping_mul(b)),
                Operator::I32DivS => {
                    let b = pop_i32!();
                    let a = pop_i32!();
                    if b == 0 {
                        return Err(Stop::Trap("integer divide by zero"));
                    }
                    if a == i32::MIN && b == -1 {
                        return Err(Stop::Trap("integer overflow"));
                    }
                    stack.push(Val::I32(a.wrapping_div(b)));
                }
                Operator::I32DivU => {
                    let b = pop_i32!() as u32;
                    let a = pop_i32!() as u32;
                    if b == 0 {
                        return Err(Stop::Trap("integer divide by zero"));
                    }
                    stack.push(Val::I32((a / b) as i32));
                }
                Operator::I32RemS => {
                    let b = pop_i32!();
                    let a = pop_i32!();
                    if b == 0 {
                        return Err(Stop::Trap("integer divide by zero"));
                    }
                    stack.push(Val::I32(a.wrapping_rem(b)));
                }
                Operator::I32RemU => {
                    let b = pop_i32!() as u32;
                    let a = pop_i32!() as u32;
                    if b == 0 {
                        return Err(Stop::Trap("integer divide by zero"));
                    }
                    stack.push(Val::I32((a % b) as i32));
                }
                Operator::I32And => bin!(pop_i32, i32v, |a, b| a & b),
                Operator::I32Or => bin!(pop_i32, i32v, |a, b| a | b),
                Operator::I32Xor => bin!(pop_i32, i32v, |a, b| a ^ b),
                Operator::I32Shl => bin!(pop_i32, i32v, |a, b| a.wrapping_shl(b as u32)),
                Operator::I32ShrS => bin!(pop_i32, i32v, |a, b| a.wrapping_shr(b as u32)),
                Operator::I32ShrU => bin!(pop_i32, i32v, |a, b| ((a as u32).wrapping_shr(b as u32)) as i32),
                Operator::I32Rotl => bin!(pop_i32, i32v, |a, b| a.rotate_left(b as u32 & 31)),
                Operator::I32Rotr => bin!(pop_i32, i32v, |a, b| a.rotate_right(b as u32 & 31)),
                // ---- i64
                Operator::I64Eqz => un!(pop_i64, boolv, |a| a == 0),
                Operator::I64Eq => bin!(pop_i64, boolv, |a, b| a == b),
                Operator::I64Ne => bin!(pop_i64, boolv, |a, b| a != b),
                Operator::I64LtS => bin!(pop_i64, boolv, |a, b| a < b),
                Operator::I64LtU => bin!(pop_i64, boolv, |a, b| (a as u64) < (b as u64)),
                Operator::I64GtS => bin!(pop_i64, boolv, |a, b| a > b),
                Operator::I64GtU => bin!(pop_i64, boolv, |a, b| (a as u64) > (b as u64)),
                Operator::I64LeS => bin!(pop_i64, boolv, |a, b| a <= b),
                Operator::I64LeU => bin!(pop_i64, boolv, |a, b| (a as u64) <= (b as u64)),
                Operator::I64GeS => bin!(pop_i64, boolv, |a, b| a >= b),
                Operator::I64GeU => bin!(pop_i64, boolv, |a, b| (a as u64) >= (b as u64)),
                Operator::I64Clz => un!(pop_i64, i64v, |a| a.leading_zeros() as i64),
                Operator::I64Ctz => un!(pop_i64, i64v, |a| a.trailing_zeros() as i64),
                Operator::I64Popcnt => un!(pop_i64, i64v, |a| a.count_ones() as i64),
                Operator::I64Add => bin!(pop_i64, i64v, |a, b| a.wrapping_add(b)),
                Operator::I64Sub => bin!(pop_i64, i64v, |a, b| a.wrapping_sub(b)),
                Operator::I64Mul => bin!(pop_i64, i64v, |a, b| a.wrapping_mul(b)),
                Operator::I64DivS => {
                    let b = pop_i64!();
                    let a = pop_i64!();
                    if b == 0 {
                        return Err(Stop::Trap("integer divide by zero"));
                    }
                    if a == i64::MIN && b == -1 {
                        return Err(Stop::Trap("integer overflow"));
                    }
                    stack.push(Val::I64(a.wrapping_div(b)));
                }
                Operator::I64DivU => {
                    let b = pop_i64!() as u64;
                    let a = pop_i64!() as u64;
                    if b == 0 {
                        return Err(Stop::Trap("integer divide by zero"));
                    }
                    stack.push(Val::I64((a / b) as i64));
                }
                Operator::I64RemS => {
                    let b = pop_i64!();
                    let a = pop_i64!();
                    if b == 0 {
                        return Err(Stop::Trap("integer divide by zero"));
                    }
                    stack.push(Val::I64(a.wrapping_rem(b)));
                }
                Operator::I64RemU => {
                    let b = pop_i64!() as u64;
                    let a = pop_i64!() as u64;
                    if b == 0 {
                        return Err(Stop::Trap("integer divide by zero"));
                    }
                    stack.push(Val::I64((a % b) as i64));
                }
                Operator::I64And => bin!(pop_i64, i64v, |a, b| a & b),
                Operator::I64Or => bin!(pop_i64, i64v, |a, b| a | b),
                Operator::I64Xor => bin!(pop_i64, i64v, |a, b| a ^ b),
                Operator::I64Shl => bin!(pop_i64, i64v, |a, b| a.wrapping_shl(b as u32)),
                Operator::I64ShrS => bin!(pop_i64, i64v, |a, b| a.wrapping_shr(b as u32)),
                Operator::I64ShrU => bin!(pop_i64, i64v, |a, b| ((a as u64).wrapping_shr(b as u32)) as i64),
                Operator::I64Rotl => bin!(pop_i64, i64v, |a, b| a.rotate_left(b as u32 & 63)),
                Operator::I64Rotr => bin!(pop_i64, i64v, |a, b| a.rotate_right(b as u32 & 63)),
                // ---- f32
                Operator::F32Eq => bin!(pop_f32, boolv, |a, b| a == b),
                Operator::F32Ne => bin!(pop_f32, boolv, |a, b| a != b),
                Operator::F32Lt => bin!(pop_f32, boolv, |a, b| a < b),
                Operator::F32Gt => bin!(pop_f32, boolv, |a, b| a > b),
                Operator::F32Le => bin!(pop_f32, boolv, |a, b| a <= b),
                Operator::F32Ge => bin!(pop_f32, boolv, |a, b| a >= b),
                Operator::F32Abs => un!(pop_f32, f32v, |a| f32::from_bits(a.to_bits() & 0x7fff_ffff)),
                Operator::F32Neg => un!(pop_f32, f32v, |a| f32::from_bits(a.to_bits() ^ 0x8000_0000)),
                Operator::F32Ceil => un!(pop_f32, f32v, |a| a.ceil()),
                Operator::F32Floor => un!(pop_f32, f32v, |a| a.floor()),
                Operator::F32Trunc => un!(pop_f32, f32v, |a| a.trunc()),
                Operator::F32Nearest => un!(pop_f32, f32v, |a| nearest32(a)),
                Operator::F32Sqrt => un!(pop_f32, f32v, |a| a.sqrt()),
                Operator::F32Add => bin!(pop_f32, f32v, |a, b| a + b),
                Operator::F32Sub => bin!(pop_f32, f32v, |a, b| a - b),
                Operator::F32Mul => bin!(pop_f32, f32v, |a, b| a * b),
                Operator::F32Div => bin!(pop_f32, f32v, |a, b| a / b),
                Operator::F32Min => bin!(pop_f32, f32v, |a, b| fmin32(a, b)),
                Operator::F32Max => bin!(pop_f32, f32v, |a, b| fmax32(a, b)),
                Operator::F32Copysign => bin!(pop_f32, f32v, |a, b| f32::from_bits((a.to_bits() & 0x7fff_ffff) | (b.to_bits() & 0x8000_0000))),
                // ---- f64
                Operator::F64Eq => bin!(pop_f64, boolv, |a, b| a == b),
                Operator::F64Ne => bin!(pop_f64, boolv, |a, b| a != b),
                Operator::F64Lt => bin!(pop_f64, boolv, |a, b| a < b),
                Operator::F64Gt => bin!(pop_f64, boolv, |a, b| a > b),
                Operator::F64Le => bin!(pop_f64, boolv, |a, b| a <= b),
                Operator::F64Ge => bin!(pop_f64, boolv, |a, b| a >= b),
                Operator::F64Abs => un!(pop_f64, f64v, |a| f64::from_bits(a.to_bits() & 0x7fff_ffff_ffff_ffff)),
                Operator::F64Neg => un!(pop_f64, f64v, |a| f64::from_bits(a.to_bits() ^ 0x8000_0000_0000_0000)),
                Operator::F64Ceil => un!(pop_f64, f64v, |a| a.ceil()),
                Operator::F64Floor => un!(pop_f64, f64v, |a| a.floor()),
                Operator::F64Trunc => un!(pop_f64, f64v, |a| a.trunc()),
                Operator::F64Nearest => un!(pop_f64, f64v, |a| nearest64(a)),
                Operator::F64Sqrt => un!(pop_f64, f64v, |a| a.sqrt()),
                Operator::F64Add => bin!(pop_f64, f64v, |a, b| a + b),
                Operator::F64Sub => bin!(pop_f64, f64v, |a, b| a - b),
                Operator::F64Mul => bin!(pop_f64, f64v, |a, b| a * b),
                Operator::F64Div => bin!(pop_f64, f64v, |a, b| a / b),
                Operator::F64Min => bin!(pop_f64, f64v, |a, b| fmin64(a, b)),
                Operator::F64Max => bin!(pop_f64, f64v, |a, b| fmax64(a, b)),
                Operator::F64Copysign => bin!(pop_f64, f64v, |a, b| f64::from_bits((a.to_bits() & 0x7fff_ffff_ffff_ffff) | (b.to_bits() & 0x8000_0000_0000_0000))),
                // ---- conversions
                Operator::I32WrapI64 => un!(pop_i64, i32v, |a| a as i32),
                Operator::I64ExtendI32S => un!(pop_i32, i64v, |a| a as i64),
                Operator::I64ExtendI32U => un!(pop_i32, i64v, |a| a as u32 as i64),
                Operator::I32Extend8S => un!(pop_i32, i32v, |a| a as i8 as i32),
                Operator::I32Extend16S => un!(pop_i32, i32v, |a| a as i16 as i32),
                Operator::I64Extend8S => un!(pop_i64, i64v, |a| a as i8 as i64),
                Operator::I64Extend16S => un!(pop_i64, i64v, |a| a as i16 as i64),
                Operator::I64Extend32S => un!(pop_i64, i64v, |a| a as i32 as i64),
                Operator::I32TruncF32S => {
                    let a = pop_f32!() as f64;
                    stack.push(Val::I32(trunc_checked(a, -2147483649.0, 2147483648.0)? as i32))
                }
                Operator::I32TruncF32U => {
                    let a = pop_f32!() as f64;
                    stack.push(Val::I32(trunc_checked(a, -1.0, 4294967296.0)? as u32 as i32))
                }
                Operator::I32TruncF64S => {
                    let a = pop_f64!();
                    stack.push(Val::I32(trunc_checked(a, -2147483649.0, 2147483648.0)? as i32))
                }
                Operator::I32TruncF64U => {
                    let a = pop_f64!();
                    stack.push(Val::I32(trunc_checked(a, -1.0, 4294967296.0)? as u32 as i32))
                }
                Operator::I64TruncF32S => {
                    let a = pop_f32!();
                    if a.is_nan() {
                        return Err(Stop::Trap("invalid conversion to integer"));
                    }
                    if !(a >= -9223372036854775808.0f32 && a < 9223372036854775808.0f32) {
                        return Err(Stop::Trap("integer overflow"));
                    }
                    stack.push(Val::I64(a as i64))
                }
                Operator::I64TruncF32U => {
                    let a = pop_f32!();
                    if a.is_nan() {
                        return Err(Stop::Trap("invalid conversion to integer"));
                    }
                    if !(a > -1.0f32 && a < 18446744073709551616.0f32) {
                        return Err(Stop::Trap("integer overflow"));
                    }
                    stack.push(Val::I64(a as u64 as i64))
                }
                Operator::I64TruncF64S => {
                    let a = pop_f64!();
                    if a.is_nan() {
                        return Err(Stop::Trap("invalid conversion to integer"));
                    }
                    if !(a >= -9223372036854775808.0f64 && a < 9223372036854775808.0f64) {
                        return Err(Stop::Trap("integer overflow"));
                    }
                    stack.push(Val::I64(a as i64))
                }
                Operator::I64TruncF64U => {
                    let a = pop_f64!();
                    if a.is_nan() {
                        return Err(Stop::Trap("invalid conversion to integer"));
                    }
                    if !(a > -1.0f64 && a < 18446744073709551616.0f64) {
                        return Err(Stop::Trap("integer overflow"));
                    }
                    stack.push(Val::I64(a as u64 as i64))
                }
                Operator::I32TruncSatF32S => un!(pop_f32, i32v, |a| a as i32),
                Operator::I32TruncSatF32U => un!(pop_f32, i32v, |a| a as u32 as i32),
                Operator::I32TruncSatF64S => un!(pop_f64, i32v, |a| a as i32),
                Operator::I32TruncSatF64U => un!(pop_f64, i32v, |a| a as u32 as i32),
                Operator::I64TruncSatF32S => un!(pop_f32, i64v, |a| a as i64),
                Operator::I64TruncSatF32U => un!(pop_f32, i64v, |a| a as u64 as i64),
                Operator::I64TruncSatF64S => un!(pop_f64, i64v, |a| a as i64),
                Operator::I64TruncSatF64U => un!(pop_f64, i64v, |a| a as u64 as i64),
                Operator::F32ConvertI32S => un!(pop_i32, f32v, |a| a as f32),
                Operator::F32ConvertI32U => un!(pop_i32, f32v, |a| a as u32 as f32),
                Operator::F32ConvertI64S => un!(pop_i64, f32v, |a| a as f32),
                Operator::F32ConvertI64U => un!(pop_i64, f32v, |a| a as u64 as f32),
                Operator::F64ConvertI32S => un!(pop_i32, f64v, |a| a as f64),
                Operator::F64ConvertI32U => un!(pop_i32, f64v, |a| a as u32 as f64),
                Operator::F64ConvertI64S => un!(pop_i64, f64v, |a| a as f64),
                Operator::F64ConvertI64U => un!(pop_i64, f64v, |a| a as u64 as f64),
                Operator::F32DemoteF64 => un!(pop_f64, f32v, |a| a as f32),
                Operator::F64PromoteF32 => un!(pop_f32, f64v, |a| a as f64),
                Operator::I32ReinterpretF32 => {
                    let v = pop!();
                    match v {
                        Val::F32(b) => stack.push(Val::I32(b as i32)),
                        v => return Err(Stop::Unsupported(format!("reinterpret {:?}", v))),
                    }
                }
                Operator::I64ReinterpretF64 => {
                    let v = pop!();
                    match v {
                        Val::F64(b) => stack.push(Val::I64(b as i64)),
                        v => return Err(Stop::Unsupported(format!("reinterpret {:?}", v))),
                    }
                }
                Operator::F32ReinterpretI32 => un!(pop_i32, |x: u32| Val::F32(x), |a| a as u32),
                Operator::F64ReinterpretI64 => un!(pop_i64, |x: u64| Val::F64(x), |a| a as u64),
                other => return Err(Stop::Unsupported(format!("{:?}", other).chars().take(40).collect())),
            }
            // ---------------- completion: moment B
            self.tick();
            if let Some(d) = branch_to {
                fallthrough = false;
                self.taken_branches += 1;
                let ti = ctls.len() - 1 - d as usize;
                let (opener, is_loop, height, arity, end_pc) = {
                    let t = &ctls[ti];
                    (t.opener, t.is_loop, t.height, t.br_arity, t.end_pc)
                };
                let n = stack.len();
                let vals = stack.split_off(n - arity);
                stack.truncate(height);
                stack.extend(vals);
                for c in &ctls[ti + 1..] {
                    self.left_by_branch.insert((f, c.opener));
                }
                if !is_loop && opener != usize::MAX {
                    self.left_by_branch.insert((f, opener));
                    self.arrivals.entry((f, opener)).or_default().insert(pc);
                }
                if opener == usize::MAX {
                    // branch to the function label = return
                    self.emit(f, 0, EvKind::FuncExit);
                    self.emit(f, pc, EvKind::SemAfter);
                    *self.exit_kinds.entry((f, if ctls.len() >= 3 { "branch_to_function_label_from_depth_ge_2" } else { "branch_to_function_label" })).or_default() += 1;
                    let n = stack.len();
                    let vals = stack.split_off(n - n_res);
                    return Ok(FrameEnd::Return(vals));
                }
                if is_loop {
                    ctls.truncate(ti + 1);
                    self.emit(f, opener, EvKind::BlockEntry);
                    self.emit(f, pc, EvKind::SemAfter);
                    *self.loop_iterations.entry((f, opener)).or_default() += 1;
                    pc = opener + 1;
                } else {
                    ctls.truncate(ti);
                    // control arrives behind the target construct
                    self.emit(f, opener, EvKind::SemAfter);
                    if let Operator::If { .. } = &code.ops[opener] {
                        let e = code.else_of[opener];
                        if e != usize::MAX {
                            self.emit(f, e, EvKind::SemAfter);
                        }
                    }
                    self.emit(f, pc, EvKind::SemAfter);
                    pc = end_pc + 1;
                }
                continue;
            }
            if fallthrough {
                self.emit(f, pc, EvKind::After);
                if matches!(op, Operator::BrIf { .. } | Operator::BrOnNull { .. } | Operator::BrOnNonNull { .. }) {
                    self.emit(f, pc, EvKind::SemAfter);
                }
            }
            pc += 1;
        }
    }

    fn resolve_indirect(&self, table: u32, i: usize, ty: u32) -> Result<u32, Stop> {
        let tb = self.tables.get(table as usize).ok_or(Stop::Trap("unknown table"))?;
        let e = tb.get(i).ok_or(Stop::Trap("undefined element"))?;
        let g = e.ok_or(Stop::Trap("uninitialized element"))?;
        let want = &self.prog.types[ty as usize];
        let have = &self.prog.types[self.prog.func_types[g as usize] as usize];
        if want != have {
            return Err(Stop::Trap("indirect call type mismatch"));
        }
        Ok(g)
    }

    fn load<const N: usize>(&self, m: &wasmparser::MemArg, base: i32) -> Result<[u8; N], Stop> {
        let mem = &self.mems[m.memory as usize];
        let a = (base as u32 as u64).checked_add(m.offset).ok_or(Stop::Trap("out of bounds memory access"))?;
        let e = a.checked_add(N as u64).ok_or(Stop::Trap("out of bounds memory access"))?;
        if e > mem.len() as u64 {
            return Err(Stop::Trap("out of bounds memory access"));
        }
        let mut b = [0u8; N];
        b.copy_from_slice(&mem[a as usize..e as usize]);
        Ok(b)
    }
    fn store(&mut self, m: &wasmparser::MemArg, base: i32, bytes: &[u8]) -> Result<(), Stop> {
        let mem = &mut self.mems[m.memory as usize];
        let a = (base as u32 as u64).checked_add(m.offset).ok_or(Stop::Trap("out of bounds memory access"))?;
        let e = a.checked_add(bytes.len() as u64).ok_or(Stop::Trap("out of bounds memory access"))?;
        if e > mem.len() as u64 {
            return Err(Stop::Trap("out of bounds memory access"));
        }
        mem[a as usize..e as usize].copy_from_slice(bytes);
        Ok(())
    }
}

fn trunc_checked(a: f64, lo_excl: f64, hi_excl: f64) -> Result<i64, Stop> {
    if a.is_nan() {
        return Err(Stop::Trap("invalid conversion to integer"));
    }
    if !(a > lo_excl && a < hi_excl) {
        return Err(Stop::Trap("integer overflow"));
    }
    Ok(a.trunc() as i64)
}
fn nearest32(a: f32) -> f32 {
    if a.is_nan() || a.is_infinite() || a == 0.0 {
        return a;
    }
    let r = a.round();
    let res = if (a - a.trunc()).abs() == 0.5 {
        // ties to even
        let t = a.trunc();
        if (t / 2.0).fract() == 0.0 {
            t
        } else {
            r
        }
    } else {
        r
    };
    if res == 0.0 {
        f32::from_bits(a.to_bits() & 0x8000_0000)
    } else {
        res
    }
}
fn nearest64(a: f64) -> f64 {
    if a.is_nan() || a.is_infinite() || a == 0.0 {
        return a;
    }
    let r = a.round();
    let res = if (a - a.trunc()).abs() == 0.5 {
        let t = a.trunc();
        if (t / 2.0).fract() == 0.0 {
            t
        } else {
            r
        }
    } else {
        r
    };
    if res == 0.0 {
        f64::from_bits(a.to_bits() & 0x8000_0000_0000_0000)
    } else {
        res
    }
}
fn fmin32(a: f32, b: f32) -> f32 {
    if a.is_nan() || b.is_nan() {
        return f32::NAN;
    }
    if a == 0.0 && b == 0.0 {
        return f32::from_bits(a.to_bits() | b.to_bits());
    }
    a.min(b)
}
fn fmax32(a: f32, b: f32) -> f32 {
    if a.is_nan() || b.is_nan() {
        return f32::NAN;
    }
    if a == 0.0 && b == 0.0 {
        return f32::from_bits(a.to_bits() & b.to_bits());
    }
    a.max(b)
}
fn fmin64(a: f64, b: f64) -> f64 {
    if a.is_nan() || b.is_nan() {
        return f64::NAN;
    }
    if a == 0.0 && b == 0.0 {
        return f64::from_bits(a.to_bits() | b.to_bits());
    }
    a.min(b)
}
fn fmax64(a: f64, b: f64) -> f64 {
    if a.is_nan() || b.is_nan() {
        return f64::NAN;
    }
    if a == 0.0 && b == 0.0 {
        return f64::from_bits(a.to_bits() & b.to_bits());
    }
    a.max(b)
}
