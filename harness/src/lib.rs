pub mod capture;
pub mod corpus;
pub mod dec;
pub mod engine;
pub mod gen;
pub mod interp;
pub mod props;
pub mod tape;
