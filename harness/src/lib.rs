pub fn hi() {}
